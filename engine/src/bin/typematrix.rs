//! E-TYPE: evaluates, for every public primitive / future / guard / releaser /
//! handle / stream type of the crate and every combination of witness
//! parameters, the compile-time facts `Send`, `Sync`, `Unpin`, and prints one
//! row per cell. Because every hand-written impl is parametric and its bounds
//! mention marker traits only, one witness per (Send, Sync) class enumerates
//! the abstract configuration space completely. The oracle (rule table) lives
//! in lib/typerules.py.
#![allow(dead_code)]
use core::marker::PhantomData;
use futures_intrusive::buffer::*;
use futures_intrusive::channel::shared as sh;
use futures_intrusive::channel::*;
use futures_intrusive::sync::*;
use futures_intrusive::timer::*;
use lock_api::{GuardSend, RawMutex};
use std::cell::Cell;
use std::rc::Rc;

struct P<T: ?Sized>(PhantomData<T>);
trait NoSend {
    const SEND: bool = false;
}
impl<T: ?Sized> NoSend for P<T> {}
impl<T: ?Sized + Send> P<T> {
    const SEND: bool = true;
}
trait NoSync {
    const SYNC: bool = false;
}
impl<T: ?Sized> NoSync for P<T> {}
impl<T: ?Sized + Sync> P<T> {
    const SYNC: bool = true;
}
trait NoUnpin {
    const UNPIN: bool = false;
}
impl<T: ?Sized> NoUnpin for P<T> {}
impl<T: ?Sized + Unpin> P<T> {
    const UNPIN: bool = true;
}

trait NoTimer {
    const TIMER: bool = false;
}
impl<T: ?Sized> NoTimer for P<T> {}
impl<T: ?Sized + Timer> P<T> {
    const TIMER: bool = true;
}
trait NoLocalTimer {
    const LOCAL_TIMER: bool = false;
}
impl<T: ?Sized> NoLocalTimer for P<T> {}
impl<T: ?Sized + LocalTimer> P<T> {
    const LOCAL_TIMER: bool = true;
}

// lock witnesses
type MNN = futures_intrusive::verif::NoopLock; // (!Send,!Sync): the local flavour
type MSS = parking_lot::RawMutex; // (Send,Sync): the thread-safe flavour
macro_rules! raw {
    ($n:ident) => {
        struct $n(PhantomData<*mut ()>);
        unsafe impl RawMutex for $n {
            const INIT: $n = $n(PhantomData);
            type GuardMarker = GuardSend;
            fn lock(&self) {}
            fn try_lock(&self) -> bool {
                true
            }
            unsafe fn unlock(&self) {}
        }
    };
}
raw!(MSN);
unsafe impl Send for MSN {} // synthetic (Send,!Sync)
raw!(MNS);
unsafe impl Sync for MNS {} // synthetic (!Send,Sync)

// payload witnesses
type TSS = i32;
type TSN = Cell<i32>;
type TNN = Rc<i32>;
#[derive(Clone)]
struct TNS(PhantomData<*mut ()>);
unsafe impl Sync for TNS {}

// buffer witness (!Send)
struct RcBuf<T>(Rc<()>, Vec<T>);
impl<T> RingBuf for RcBuf<T> {
    type Item = T;
    fn new() -> Self {
        RcBuf(Rc::new(()), vec![])
    }
    fn with_capacity(_: usize) -> Self {
        Self::new()
    }
    fn capacity(&self) -> usize {
        4
    }
    fn len(&self) -> usize {
        self.1.len()
    }
    fn can_push(&self) -> bool {
        true
    }
    fn push(&mut self, i: T) {
        self.1.push(i)
    }
    fn pop(&mut self) -> T {
        self.1.remove(0)
    }
}

macro_rules! row {
    ($name:expr, $m:expr, $t:expr, $a:expr, $ty:ty) => {
        println!("cell|{}|{}|{}|{}|{}|{}|{}", $name, $m, $t, $a, <P<$ty>>::SEND as u8, <P<$ty>>::SYNC as u8, <P<$ty>>::UNPIN as u8);
    };
}
/// result type of a method and the type the result borrows from / shares
macro_rules! pair {
    ($name:expr, $m:expr, $t:expr, $a:expr, $res:ty, $recv:ty) => {
        println!("pair|{}|{}|{}|{}|{}|{}|{}", $name, $m, $t, $a, <P<$res>>::SEND as u8, <P<$recv>>::SYNC as u8, <P<$recv>>::SEND as u8);
    };
}
macro_rules! for_m {
    ($mac:ident) => {
        $mac!(MNN, "M--");
        $mac!(MSS, "MSY");
        $mac!(MSN, "MS-");
        $mac!(MNS, "M-Y");
    };
}
macro_rules! for_t {
    ($mac:ident, $m:ty, $ms:expr) => {
        $mac!($m, $ms, TSS, "TSY");
        $mac!($m, $ms, TSN, "TS-");
        $mac!($m, $ms, TNN, "T--");
        $mac!($m, $ms, TNS, "T-Y");
    };
}

macro_rules! m_only {
    ($m:ty, $ms:expr) => {
        row!("GenericManualResetEvent", $ms, "", "", GenericManualResetEvent<$m>);
        row!("GenericWaitForEventFuture", $ms, "", "", GenericWaitForEventFuture<'static, $m>);
        row!("GenericSemaphore", $ms, "", "", GenericSemaphore<$m>);
        row!("GenericSemaphoreAcquireFuture", $ms, "", "", GenericSemaphoreAcquireFuture<'static, $m>);
        row!("GenericSemaphoreReleaser", $ms, "", "", GenericSemaphoreReleaser<'static, $m>);
        row!("GenericSharedSemaphore", $ms, "", "", GenericSharedSemaphore<$m>);
        row!("GenericSharedSemaphoreAcquireFuture", $ms, "", "", GenericSharedSemaphoreAcquireFuture<$m>);
        row!("GenericSharedSemaphoreReleaser", $ms, "", "", GenericSharedSemaphoreReleaser<$m>);
        row!("GenericTimerService", $ms, "", "", GenericTimerService<$m>);
        pair!("GenericManualResetEvent::wait", $ms, "", "", GenericWaitForEventFuture<'static, $m>, GenericManualResetEvent<$m>);
        pair!("GenericSemaphore::acquire", $ms, "", "", GenericSemaphoreAcquireFuture<'static, $m>, GenericSemaphore<$m>);
        pair!("GenericSemaphore::try_acquire", $ms, "", "", GenericSemaphoreReleaser<'static, $m>, GenericSemaphore<$m>);
        pair!("shared:GenericSharedSemaphore::acquire", $ms, "", "", GenericSharedSemaphoreAcquireFuture<$m>, GenericSharedSemaphore<$m>);
        pair!("shared:GenericSharedSemaphore::try_acquire", $ms, "", "", GenericSharedSemaphoreReleaser<$m>, GenericSharedSemaphore<$m>);
    };
}
macro_rules! mt {
    ($m:ty, $ms:expr, $t:ty, $ts:expr) => {
        row!("GenericMutex", $ms, $ts, "", GenericMutex<$m, $t>);
        row!("GenericMutexGuard", $ms, $ts, "", GenericMutexGuard<'static, $m, $t>);
        row!("GenericMutexLockFuture", $ms, $ts, "", GenericMutexLockFuture<'static, $m, $t>);
        row!("ChannelReceiveFuture", $ms, $ts, "", ChannelReceiveFuture<'static, $m, $t>);
        row!("ChannelSendFuture", $ms, $ts, "", ChannelSendFuture<'static, $m, $t>);
        row!("sh::ChannelReceiveFuture", $ms, $ts, "", sh::ChannelReceiveFuture<$m, $t>);
        row!("sh::ChannelSendFuture", $ms, $ts, "", sh::ChannelSendFuture<$m, $t>);
        row!("GenericOneshotChannel", $ms, $ts, "", GenericOneshotChannel<$m, $t>);
        row!("GenericOneshotBroadcastChannel", $ms, $ts, "", GenericOneshotBroadcastChannel<$m, $t>);
        row!("GenericStateBroadcastChannel", $ms, $ts, "", GenericStateBroadcastChannel<$m, $t>);
        row!("StateReceiveFuture", $ms, $ts, "", StateReceiveFuture<'static, $m, $t>);
        row!("sh::StateReceiveFuture", $ms, $ts, "", sh::StateReceiveFuture<$m, $t>);
        row!("sh::GenericOneshotSender", $ms, $ts, "", sh::GenericOneshotSender<$m, $t>);
        row!("sh::GenericOneshotReceiver", $ms, $ts, "", sh::GenericOneshotReceiver<$m, $t>);
        row!("sh::GenericOneshotBroadcastSender", $ms, $ts, "", sh::GenericOneshotBroadcastSender<$m, $t>);
        row!("sh::GenericOneshotBroadcastReceiver", $ms, $ts, "", sh::GenericOneshotBroadcastReceiver<$m, $t>);
        row!("sh::GenericStateSender", $ms, $ts, "", sh::GenericStateSender<$m, $t>);
        row!("sh::GenericStateReceiver", $ms, $ts, "", sh::GenericStateReceiver<$m, $t>);
        row!("GenericChannel", $ms, $ts, "Array", GenericChannel<$m, $t, ArrayBuf<$t, [$t; 2]>>);
        row!("GenericChannel", $ms, $ts, "FixedHeap", GenericChannel<$m, $t, FixedHeapBuf<$t>>);
        row!("GenericChannel", $ms, $ts, "Growing", GenericChannel<$m, $t, GrowingHeapBuf<$t>>);
        row!("GenericChannel", $ms, $ts, "RcBuf", GenericChannel<$m, $t, RcBuf<$t>>);
        row!("ChannelStream", $ms, $ts, "Array", ChannelStream<'static, $m, $t, ArrayBuf<$t, [$t; 2]>>);
        row!("ChannelStream", $ms, $ts, "RcBuf", ChannelStream<'static, $m, $t, RcBuf<$t>>);
        row!("sh::GenericSender", $ms, $ts, "Growing", sh::GenericSender<$m, $t, GrowingHeapBuf<$t>>);
        row!("sh::GenericSender", $ms, $ts, "RcBuf", sh::GenericSender<$m, $t, RcBuf<$t>>);
        row!("sh::GenericReceiver", $ms, $ts, "Growing", sh::GenericReceiver<$m, $t, GrowingHeapBuf<$t>>);
        row!("sh::GenericReceiver", $ms, $ts, "RcBuf", sh::GenericReceiver<$m, $t, RcBuf<$t>>);
        row!("sh::SharedStream", $ms, $ts, "Growing", sh::SharedStream<$m, $t, GrowingHeapBuf<$t>>);
        row!("sh::SharedStream", $ms, $ts, "RcBuf", sh::SharedStream<$m, $t, RcBuf<$t>>);
        // method result / receiver pairs
        pair!("GenericMutex::lock", $ms, $ts, "", GenericMutexLockFuture<'static, $m, $t>, GenericMutex<$m, $t>);
        pair!("GenericMutex::try_lock", $ms, $ts, "", GenericMutexGuard<'static, $m, $t>, GenericMutex<$m, $t>);
        pair!("GenericChannel::send", $ms, $ts, "Array", ChannelSendFuture<'static, $m, $t>, GenericChannel<$m, $t, ArrayBuf<$t, [$t; 2]>>);
        pair!("GenericChannel::receive", $ms, $ts, "Array", ChannelReceiveFuture<'static, $m, $t>, GenericChannel<$m, $t, ArrayBuf<$t, [$t; 2]>>);
        pair!("GenericChannel::stream", $ms, $ts, "Array", ChannelStream<'static, $m, $t, ArrayBuf<$t, [$t; 2]>>, GenericChannel<$m, $t, ArrayBuf<$t, [$t; 2]>>);
        pair!("GenericChannel::send", $ms, $ts, "FixedHeap", ChannelSendFuture<'static, $m, $t>, GenericChannel<$m, $t, FixedHeapBuf<$t>>);
        pair!("GenericChannel::receive", $ms, $ts, "Growing", ChannelReceiveFuture<'static, $m, $t>, GenericChannel<$m, $t, GrowingHeapBuf<$t>>);
        pair!("GenericChannel::send", $ms, $ts, "RcBuf", ChannelSendFuture<'static, $m, $t>, GenericChannel<$m, $t, RcBuf<$t>>);
        pair!("GenericChannel::receive", $ms, $ts, "RcBuf", ChannelReceiveFuture<'static, $m, $t>, GenericChannel<$m, $t, RcBuf<$t>>);
        pair!("GenericChannel::stream", $ms, $ts, "RcBuf", ChannelStream<'static, $m, $t, RcBuf<$t>>, GenericChannel<$m, $t, RcBuf<$t>>);
        pair!("GenericOneshotChannel::receive", $ms, $ts, "", ChannelReceiveFuture<'static, $m, $t>, GenericOneshotChannel<$m, $t>);
        pair!("GenericOneshotBroadcastChannel::receive", $ms, $ts, "", ChannelReceiveFuture<'static, $m, $t>, GenericOneshotBroadcastChannel<$m, $t>);
        pair!("GenericStateBroadcastChannel::receive", $ms, $ts, "", StateReceiveFuture<'static, $m, $t>, GenericStateBroadcastChannel<$m, $t>);
        pair!("shared:GenericSender::send", $ms, $ts, "Growing", sh::ChannelSendFuture<$m, $t>, sh::GenericSender<$m, $t, GrowingHeapBuf<$t>>);
        pair!("shared:GenericReceiver::receive", $ms, $ts, "Growing", sh::ChannelReceiveFuture<$m, $t>, sh::GenericReceiver<$m, $t, GrowingHeapBuf<$t>>);
        pair!("shared:GenericReceiver::into_stream", $ms, $ts, "Growing", sh::SharedStream<$m, $t, GrowingHeapBuf<$t>>, sh::GenericReceiver<$m, $t, GrowingHeapBuf<$t>>);
        pair!("shared:GenericSender::send", $ms, $ts, "RcBuf", sh::ChannelSendFuture<$m, $t>, sh::GenericSender<$m, $t, RcBuf<$t>>);
        pair!("shared:GenericReceiver::receive", $ms, $ts, "RcBuf", sh::ChannelReceiveFuture<$m, $t>, sh::GenericReceiver<$m, $t, RcBuf<$t>>);
        pair!("shared:GenericReceiver::into_stream", $ms, $ts, "RcBuf", sh::SharedStream<$m, $t, RcBuf<$t>>, sh::GenericReceiver<$m, $t, RcBuf<$t>>);
        pair!("shared:GenericOneshotReceiver::receive", $ms, $ts, "", sh::ChannelReceiveFuture<$m, $t>, sh::GenericOneshotReceiver<$m, $t>);
        pair!("shared:GenericOneshotBroadcastReceiver::receive", $ms, $ts, "", sh::ChannelReceiveFuture<$m, $t>, sh::GenericOneshotBroadcastReceiver<$m, $t>);
        pair!("shared:GenericStateReceiver::receive", $ms, $ts, "", sh::StateReceiveFuture<$m, $t>, sh::GenericStateReceiver<$m, $t>);
    };
}
macro_rules! mt_all {
    ($m:ty, $ms:expr) => {
        for_t!(mt, $m, $ms);
    };
}

/// which of the two timer traits a service implements: `Timer` hands out the unconditionally
/// `Send` TimerFuture (which borrows the service), `LocalTimer` the `!Send` LocalTimerFuture
macro_rules! timer_traits {
    ($m:ty, $ms:expr) => {
        println!("impl|GenericTimerService|{}|Timer|{}", $ms, <P<GenericTimerService<$m>>>::TIMER as u8);
        println!("impl|GenericTimerService|{}|LocalTimer|{}", $ms, <P<GenericTimerService<$m>>>::LOCAL_TIMER as u8);
        println!(
            "pair|{}|{}|{}|{}|{}|{}|{}",
            "Timer::deadline/delay",
            $ms,
            "",
            "",
            (<P<GenericTimerService<$m>>>::TIMER && <P<TimerFuture<'static>>>::SEND) as u8,
            <P<GenericTimerService<$m>>>::SYNC as u8,
            <P<GenericTimerService<$m>>>::SEND as u8
        );
        println!(
            "pair|{}|{}|{}|{}|{}|{}|{}",
            "LocalTimer::deadline/delay",
            $ms,
            "",
            "",
            (<P<GenericTimerService<$m>>>::LOCAL_TIMER && <P<LocalTimerFuture<'static>>>::SEND) as u8,
            <P<GenericTimerService<$m>>>::SYNC as u8,
            <P<GenericTimerService<$m>>>::SEND as u8
        );
    };
}

fn main() {
    for_m!(timer_traits);
    for_m!(m_only);
    for_m!(mt_all);
    row!("LocalTimerFuture", "M--", "", "", LocalTimerFuture<'static>);
    row!("TimerFuture", "MSY", "", "", TimerFuture<'static>);
    row!("MockClock", "", "", "", MockClock);
    row!("StdClock", "", "", "", StdClock);
    row!("ArrayBuf", "", "TSY", "", ArrayBuf<TSS, [TSS; 2]>);
    row!("ArrayBuf", "", "T--", "", ArrayBuf<TNN, [TNN; 2]>);
    row!("FixedHeapBuf", "", "T--", "", FixedHeapBuf<TNN>);
    row!("GrowingHeapBuf", "", "TS-", "", GrowingHeapBuf<TSN>);
}
