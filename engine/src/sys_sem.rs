//! E-SEQ system: semaphore (borrowed local / borrowed parking_lot / shared).
//! Monitors: C01 (structure), C05 (ledger), C06 (head never stranded),
//! C07 (fair FIFO), C17 (is_terminated / poll after completion), C18 (allocation).

use crate::core::{Cfg, StepOut, System};
use crate::harness::{self, fresh, lib, sample_seen, stale_wake, wid, Meta, Pinned};
use crate::structcheck::{self, LiveNode};
use futures_core::future::FusedFuture;
use futures_intrusive::sync::{
    GenericSemaphore, GenericSemaphoreAcquireFuture, GenericSemaphoreReleaser, GenericSharedSemaphore,
    GenericSharedSemaphoreAcquireFuture, GenericSharedSemaphoreReleaser,
};
use futures_intrusive::verif::{NodeSnap, Snapshot};
use lock_api::RawMutex;
use std::future::Future;
use std::marker::PhantomData;
use std::task::{Context, Poll};

pub trait SemFlavor: 'static {
    type Sem;
    type Fut: Future<Output = Self::Rel> + FusedFuture;
    type Rel;
    fn new(fair: bool, permits: usize) -> Self::Sem;
    fn acquire(s: &Self::Sem, n: usize) -> Self::Fut;
    fn try_acquire(s: &Self::Sem, n: usize) -> Option<Self::Rel>;
    fn release(s: &Self::Sem, n: usize);
    fn permits(s: &Self::Sem) -> usize;
    fn snapshot(s: &Self::Sem) -> Snapshot;
    fn node(f: &Self::Fut) -> NodeSnap;
    fn disarm(r: &mut Self::Rel) -> usize;
    fn debug(s: &Self::Sem) -> String;
    fn node_debug(f: &Self::Fut) -> String;
    /// non-owning view of the state (shared flavour): lets the harness give up its own handle
    type Probe;
    fn probe(_s: &Self::Sem) -> Option<Self::Probe> {
        None
    }
    fn probe_snapshot(_p: &Self::Probe) -> Option<Snapshot> {
        None
    }
    fn probe_debug(_p: &Self::Probe) -> Option<String> {
        None
    }
}

pub struct Borrowed<M>(PhantomData<M>);
pub struct Shared<M>(PhantomData<M>);

impl<M: RawMutex + 'static> SemFlavor for Borrowed<M> {
    type Probe = ();
    type Sem = Box<GenericSemaphore<M>>;
    type Fut = GenericSemaphoreAcquireFuture<'static, M>;
    type Rel = GenericSemaphoreReleaser<'static, M>;
    fn new(fair: bool, permits: usize) -> Self::Sem {
        Box::new(GenericSemaphore::new(fair, permits))
    }
    fn acquire(s: &Self::Sem, n: usize) -> Self::Fut {
        let r: &'static GenericSemaphore<M> = unsafe { &*(&**s as *const GenericSemaphore<M>) };
        r.acquire(n)
    }
    fn try_acquire(s: &Self::Sem, n: usize) -> Option<Self::Rel> {
        let r: &'static GenericSemaphore<M> = unsafe { &*(&**s as *const GenericSemaphore<M>) };
        r.try_acquire(n)
    }
    fn release(s: &Self::Sem, n: usize) {
        s.release(n)
    }
    fn permits(s: &Self::Sem) -> usize {
        s.permits()
    }
    fn snapshot(s: &Self::Sem) -> Snapshot {
        s.verif_snapshot()
    }
    fn node(f: &Self::Fut) -> NodeSnap {
        f.verif_node()
    }
    fn disarm(r: &mut Self::Rel) -> usize {
        r.disarm()
    }
    fn debug(s: &Self::Sem) -> String {
        s.verif_debug()
    }
    fn node_debug(f: &Self::Fut) -> String {
        f.verif_node_debug()
    }
}

impl<M: RawMutex + 'static> SemFlavor for Shared<M> {
    type Probe = futures_intrusive::sync::VerifSharedSemaphore<M>;
    fn probe(s: &Self::Sem) -> Option<Self::Probe> {
        Some(s.verif_weak())
    }
    fn probe_snapshot(p: &Self::Probe) -> Option<Snapshot> {
        p.verif_snapshot()
    }
    fn probe_debug(p: &Self::Probe) -> Option<String> {
        p.verif_debug()
    }
    type Sem = GenericSharedSemaphore<M>;
    type Fut = GenericSharedSemaphoreAcquireFuture<M>;
    type Rel = GenericSharedSemaphoreReleaser<M>;
    fn new(fair: bool, permits: usize) -> Self::Sem {
        GenericSharedSemaphore::new(fair, permits)
    }
    fn acquire(s: &Self::Sem, n: usize) -> Self::Fut {
        s.acquire(n)
    }
    fn try_acquire(s: &Self::Sem, n: usize) -> Option<Self::Rel> {
        s.try_acquire(n)
    }
    fn release(s: &Self::Sem, n: usize) {
        s.release(n)
    }
    fn permits(s: &Self::Sem) -> usize {
        s.permits()
    }
    fn snapshot(s: &Self::Sem) -> Snapshot {
        s.verif_snapshot()
    }
    fn node(f: &Self::Fut) -> NodeSnap {
        f.verif_node()
    }
    fn disarm(r: &mut Self::Rel) -> usize {
        r.disarm()
    }
    fn debug(s: &Self::Sem) -> String {
        s.verif_debug()
    }
    fn node_debug(f: &Self::Fut) -> String {
        f.verif_node_debug()
    }
}

#[derive(Clone, Copy, Debug, PartialEq)]
pub enum Op {
    Create(u8, u8),
    Poll(u8, u8),
    /// poll a completed, still alive future again (must panic) - C17
    PollDone(u8),
    /// drop the future of the slot and the releaser it produced
    DropSlot(u8),
    DisarmSlot(u8),
    Release(u8),
    TryAcquire(u8),
    DropRel(u8),
    DisarmRel(u8),
    /// shared flavour: the last `SharedSemaphore` handle is dropped; the futures and releasers
    /// that exist keep the semaphore alive and must keep working
    DropHandle,
}

struct Slot<F: SemFlavor> {
    fut: Pinned<F::Fut>,
    rel: Option<F::Rel>,
    armed: bool,
    req: usize,
    meta: Meta,
    wait_seq: u64,
}

pub struct Sys<F: SemFlavor> {
    // NOTE: field order = drop order; everything that refers to the semaphore first
    slots: Vec<Option<Slot<F>>>,
    rels: Vec<(F::Rel, usize, bool)>,
    graveyard: Vec<Pinned<F::Fut>>,
    dead: Vec<(usize, usize)>,
    sem: Option<F::Sem>,
    probe: Option<F::Probe>,
    drop_handle: bool,
    unwind: bool,
    fair: bool,
    k: usize,
    sizes: Vec<u8>,
    cap: usize,
    max_rels: usize,
    ledger: usize,
    seq: u64,
    symmetry: bool,
}

const G: usize = 0;

/// request size of alphabet letter n: letter 7 stands for a request that does not fit into 32 bits
/// (2^32 + 2 permits; on a 32-bit target: usize::MAX)
fn amt(n: u8) -> usize {
    if n == 7 {
        (u32::MAX as usize).saturating_add(3)
    } else if n == 6 {
        // letter 6: the largest request there is (sums of queued requests overflow)
        usize::MAX
    } else {
        n as usize
    }
}
fn code(a: usize) -> u8 {
    if a == usize::MAX {
        206
    } else if a > 200 {
        207
    } else {
        a as u8
    }
}

impl<F: SemFlavor> Sys<F> {
    fn sem(&self) -> &F::Sem {
        self.sem.as_ref().expect("handle")
    }
    fn snap(&self) -> Snapshot {
        match &self.sem {
            Some(s) => F::snapshot(s),
            None => self.probe.as_ref().and_then(|p| F::probe_snapshot(p)).unwrap_or_else(|| {
                // nobody owns the semaphore any more
                let mut sn = Snapshot::default();
                sn.scalars = vec![self.fair as u64, self.ledger as u64];
                sn.queues = vec![vec![]];
                sn
            }),
        }
    }
    fn dbg(&self) -> String {
        match &self.sem {
            Some(s) => F::debug(s),
            None => self.probe.as_ref().and_then(|p| F::probe_debug(p)).unwrap_or_default(),
        }
    }
    fn permits_now(&self) -> usize {
        match &self.sem {
            Some(s) => F::permits(s),
            None => self.snap().scalars[1] as usize,
        }
    }
    fn pending(&self, i: usize) -> bool {
        matches!(&self.slots[i], Some(s) if s.meta.pending())
    }
    fn held(&self) -> usize {
        self.rels.iter().map(|r| r.1).sum::<usize>() + self.slots.iter().flatten().filter(|s| s.rel.is_some()).map(|s| s.req).sum::<usize>()
    }
    /// pending slots ordered by the start of their current wait
    fn order(&self) -> Vec<usize> {
        let mut o: Vec<(u64, usize)> = (0..self.k).filter(|&j| self.pending(j)).map(|j| (self.slots[j].as_ref().unwrap().wait_seq, j)).collect();
        o.sort();
        o.into_iter().map(|x| x.1).collect()
    }

    fn live_nodes(&self) -> Vec<LiveNode> {
        let mut v = vec![];
        for (i, s) in self.slots.iter().enumerate() {
            if let Some(s) = s {
                if s.fut.is_alive() {
                    let node = F::node(s.fut.get());
                    v.push(LiveNode::new(G, i, node, &s.meta));
                }
            }
        }
        v
    }

    /// checks that hold in every state
    fn invariants(&mut self, out: &mut StepOut) {
        // C18
        let (na, mut nf) = harness::take_alloc_counts();
        if self.sem.is_none() {
            // the futures and releasers own the state: dropping the last of them frees it
            nf = 0;
        }
        if na + nf > 0 {
            out.p("C18", "alloc-in-call", format!("{} allocations / {} frees inside library calls of this step", na, nf));
        }
        // C01 structure
        let snap = self.snap();
        let live = self.live_nodes();
        structcheck::check_errors(&snap.errors, out);
        structcheck::check_queue("waiters", &snap.queues[0], &live, &self.dead, out);
        structcheck::check_membership(&[&snap.queues[0]], &live, out);
        // C17
        for (i, s) in self.slots.iter().enumerate() {
            if let Some(s) = s {
                if s.fut.is_alive() && s.fut.get().is_terminated() != s.meta.done {
                    out.p("C17", "is-terminated", format!("slot {}: is_terminated()={} but completed={}", i, s.fut.get().is_terminated(), s.meta.done));
                }
            }
        }
        // C05 ledger
        let p = self.permits_now();
        if p != self.ledger {
            out.v("C05", "ledger", format!("permits()={} but initial+released-acquired+returned={}", p, self.ledger));
        }
        // C06 head never stranded
        let order = self.order();
        if !order.is_empty() && !order.iter().any(|&j| fresh(G, j, &self.slots[j].as_ref().unwrap().meta)) {
            let head = order[0];
            let req = self.slots[head].as_ref().unwrap().req;
            if req <= p {
                out.p("C06", "head-stranded", format!("longest-waiting request (slot {}, {} permits) fits into permits()={} but no pending future holds an unconsumed wake-up", head, req, p));
            }
        }
    }
}

impl<F: SemFlavor> System for Sys<F> {
    type Op = Op;

    fn new(cfg: &Cfg) -> Self {
        let fair = cfg.flag("fair");
        let p0 = cfg.get("permits") as usize;
        let k = cfg.get("k") as usize;
        let sizes: Vec<u8> = (0..8u8).filter(|b| cfg.get("sizes") & (1 << b) != 0).collect();
        Sys {
            slots: (0..k).map(|_| None).collect(),
            rels: vec![],
            graveyard: vec![],
            dead: vec![],
            sem: Some(F::new(fair, p0)),
            probe: None,
            drop_handle: cfg.get_or("handle", 0) != 0,
            unwind: cfg.flag("unwind"),
            fair,
            k,
            sizes,
            cap: cfg.get("cap") as usize,
            max_rels: cfg.get_or("rels", 1) as usize,
            ledger: p0,
            seq: 0,
            symmetry: cfg.get_or("symmetry", 1) != 0,
        }
    }

    fn enabled(&self) -> Vec<Op> {
        let mut v = vec![];
        let mut created = self.sem.is_none();
        for i in 0..self.k {
            match &self.slots[i] {
                None => {
                    if !(self.symmetry && created) && self.sem.is_some() {
                        for &n in &self.sizes {
                            v.push(Op::Create(i as u8, n));
                        }
                        created = true;
                    }
                }
                Some(s) => {
                    if !s.meta.done {
                        v.push(Op::Poll(i as u8, 0));
                        v.push(Op::Poll(i as u8, 1));
                    } else {
                        if !s.meta.repolled && s.fut.is_alive() {
                            v.push(Op::PollDone(i as u8));
                        }
                        if s.armed {
                            v.push(Op::DisarmSlot(i as u8));
                        }
                    }
                    v.push(Op::DropSlot(i as u8));
                }
            }
        }
        for n in 1..=2u8 {
            if self.sem.is_some() && self.ledger + self.held() + n as usize <= self.cap {
                v.push(Op::Release(n));
            }
        }
        if self.drop_handle && self.sem.is_some() && F::probe(self.sem()).is_some() {
            v.push(Op::DropHandle);
        }
        if self.sem.is_some() && self.rels.len() < self.max_rels {
            for &n in &self.sizes {
                v.push(Op::TryAcquire(n));
            }
        }
        for i in 0..self.rels.len() {
            v.push(Op::DropRel(i as u8));
            if self.rels[i].2 {
                v.push(Op::DisarmRel(i as u8));
            }
        }
        v
    }

    fn apply(&mut self, op: Op, out: &mut StepOut) {
        self.seq += 1;
        let wakes_before = harness::all_wakes();
        match op {
            Op::Create(i, n) => {
                let i = i as usize;
                match lib(|| F::acquire(self.sem(), amt(n))) {
                    Ok(f) => {
                        let mut meta = Meta::default();
                        meta.seen = sample_seen(G, i);
                        self.slots[i] = Some(Slot { fut: Pinned::new(f), rel: None, armed: false, req: amt(n), meta, wait_seq: 0 });
                    }
                    Err(p) => out.v("C01", "panic", format!("acquire({}) panicked: {}", n, p)),
                }
            }
            Op::Poll(i, w) => {
                let i = i as usize;
                let order = self.order();
                let was_fresh = fresh(G, i, &self.slots[i].as_ref().unwrap().meta);
                let seen = sample_seen(G, i);
                let waker = harness::waker(wid(G, i, w));
                let s = self.slots[i].as_mut().unwrap();
                let first = !s.meta.polled;
                let my_seq = s.wait_seq;
                let req = s.req;
                let r = lib(|| s.fut.pin().poll(&mut Context::from_waker(&waker)));
                s.meta.polled = true;
                s.meta.last = w;
                s.meta.seen = seen;
                match r {
                    Err(p) => {
                        out.v("C01", "panic", format!("poll of slot {} panicked: {}", i, p));
                        out.corrupt = true;
                        s.meta.done = true;
                    }
                    Ok(Poll::Ready(rel)) => {
                        out.o("Ready");
                        s.meta.done = true;
                        s.rel = Some(rel);
                        s.armed = true;
                        if self.ledger < req {
                            out.v("C05", "over-grant", format!("acquire({}) completed while only {} permits were available", req, self.ledger));
                            self.ledger = 0;
                        } else {
                            self.ledger -= req;
                        }
                        if self.fair && req > 0 {
                            let older: Vec<usize> = order.iter().copied().filter(|&j| j != i && (first || self.slots[j].as_ref().unwrap().wait_seq < my_seq)).collect();
                            if !older.is_empty() {
                                out.v("C07", "overtaking", format!("acquire({}) of slot {} completed although slots {:?} started waiting earlier and are still pending", req, i, older));
                            }
                        }
                    }
                    Ok(Poll::Pending) => {
                        out.o("Pending");
                        if self.fair && req == 0 {
                            out.v("C07", "zero-request-pending", format!("acquire(0) of slot {} returned Pending", i));
                        }
                        if first || (was_fresh && !self.fair) {
                            s.wait_seq = self.seq;
                        }
                    }
                }
            }
            Op::PollDone(i) => {
                let i = i as usize;
                let before = format!("{:?}", self.snap().queues);
                let waker = harness::waker(wid(G, i, 0));
                let s = self.slots[i].as_mut().unwrap();
                let r = lib(|| s.fut.pin().poll(&mut Context::from_waker(&waker)).is_ready());
                s.meta.repolled = true;
                match r {
                    Err(_) => out.o("panicked"),
                    Ok(ready) => out.v("C17", "poll-after-completion", format!("polling the completed future of slot {} did not panic (returned {})", i, if ready { "Ready: a second result" } else { "Pending" })),
                }
                let after = format!("{:?}", self.snap().queues);
                if before != after {
                    out.v("C17", "poll-after-completion-changed-state", format!("wait queue changed: {} -> {}", before, after));
                }
            }
            Op::DropSlot(i) => {
                let mut s = self.slots[i as usize].take().unwrap();
                let range = s.fut.range();
                if let Err(p) = lib(|| s.fut.kill()) {
                    out.v("C01", "panic", format!("dropping the future of slot {} panicked: {}", i, p));
                    out.corrupt = true;
                }
                s.fut.release_memory_if_requested();
                self.dead.push(range);
                if let Some(rel) = s.rel.take() {
                    if let Err(p) = lib(|| drop(rel)) {
                        out.v("C01", "panic", format!("dropping a releaser panicked: {}", p));
                    }
                    if s.armed {
                        self.ledger += s.req;
                    }
                }
                self.graveyard.push(s.fut);
            }
            Op::DisarmSlot(i) => {
                let s = self.slots[i as usize].as_mut().unwrap();
                let got = lib(|| F::disarm(s.rel.as_mut().unwrap())).unwrap_or(usize::MAX);
                if got != s.req {
                    out.v("C05", "disarm-amount", format!("disarm() returned {} for an acquisition of {}", got, s.req));
                }
                s.armed = false;
            }
            Op::Release(n) => {
                if let Err(p) = lib(|| F::release(self.sem(), n as usize)) {
                    out.v("C01", "panic", format!("release({}) panicked: {}", n, p));
                }
                self.ledger += n as usize;
            }
            Op::TryAcquire(n0) => {
                let n = amt(n0);
                let anyp = (0..self.k).any(|j| self.pending(j));
                match lib(|| F::try_acquire(self.sem(), n)) {
                    Err(p) => out.v("C01", "panic", format!("try_acquire({}) panicked: {}", n, p)),
                    Ok(Some(r)) => {
                        out.o("Some");
                        if self.ledger < n {
                            out.v("C05", "over-grant", format!("try_acquire({}) succeeded while only {} permits were available", n, self.ledger));
                            self.ledger = 0;
                        } else {
                            self.ledger -= n;
                        }
                        if self.fair && n > 0 && anyp {
                            out.v("C07", "overtaking", format!("try_acquire({}) succeeded although acquire futures are pending", n));
                        }
                        self.rels.push((r, n, true));
                    }
                    Ok(None) => {
                        out.o("None");
                        if self.fair && n == 0 {
                            out.v("C07", "zero-request-refused", "try_acquire(0) returned None".into());
                        }
                    }
                }
            }
            Op::DropRel(i) => {
                let (r, amt, armed) = self.rels.remove(i as usize);
                let res = if self.unwind { harness::drop_unwinding(r) } else { lib(|| drop(r)) };
                if let Err(p) = res {
                    out.v("C01", "panic", format!("dropping a releaser panicked: {}", p));
                }
                if armed {
                    self.ledger += amt;
                }
            }
            Op::DisarmRel(i) => {
                let e = &mut self.rels[i as usize];
                let got = lib(|| F::disarm(&mut e.0)).unwrap_or(usize::MAX);
                if got != e.1 {
                    out.v("C05", "disarm-amount", format!("disarm() returned {} for an acquisition of {}", got, e.1));
                }
                e.2 = false;
            }
            Op::DropHandle => {
                self.probe = F::probe(self.sem());
                let h = self.sem.take().unwrap();
                // (not inside `lib`: if nothing else owns the semaphore this frees its state)
                if let Err(e) = std::panic::catch_unwind(std::panic::AssertUnwindSafe(|| drop(h))) {
                    let msg = e.downcast_ref::<&str>().map(|s| s.to_string()).or_else(|| e.downcast_ref::<String>().cloned()).unwrap_or_default();
                    out.v("C01", "panic", format!("dropping the semaphore handle panicked: {}", msg));
                }
            }
        }
        // wake-ups observed during this step
        let wakes_after = harness::all_wakes();
        let woken: Vec<usize> = (0..harness::MAX_WAKERS).filter(|&w| wakes_after[w] > wakes_before[w]).collect();
        if !woken.is_empty() {
            out.o(&format!("woke{:?}", woken));
        }
        self.invariants(out);
    }

    fn fingerprint(&self) -> Vec<u8> {
        let snap = self.snap();
        let mut v = vec![self.ledger as u8, snap.scalars[1] as u8];
        let order = self.order();
        let mut recs: Vec<Vec<u8>> = vec![];
        for i in 0..self.k {
            match &self.slots[i] {
                None => recs.push(vec![255]),
                Some(s) => {
                    let mut r = vec![code(s.req), s.meta.polled as u8, s.meta.done as u8, s.meta.repolled as u8];
                    if s.meta.pending() {
                        r.push(s.meta.last);
                        r.push(fresh(G, i, &s.meta) as u8);
                        r.push(stale_wake(G, i, &s.meta) as u8);
                        r.push(order.iter().position(|&x| x == i).unwrap() as u8);
                    } else {
                        r.extend([9, 9, 9, 9]);
                    }
                    if s.fut.is_alive() {
                        let n = F::node(s.fut.get());
                        r.push(n.tag);
                        r.push(structcheck::waker_code(n.waker, G, i));
                        r.push(snap.queues[0].iter().position(|q| q.addr == n.addr).map_or(200, |p| p as u8));
                        r.push(s.fut.get().is_terminated() as u8);
                        r.extend(harness::norm(&F::node_debug(s.fut.get())));
                    } else {
                        r.extend([8, 8, 8, 8]);
                    }
                    r.push(match &s.rel {
                        None => 2,
                        Some(_) => s.armed as u8,
                    });
                    recs.push(r);
                }
            }
        }
        if self.symmetry {
            recs.sort();
        }
        for r in recs {
            v.extend(r);
            v.push(253);
        }
        v.push(254);
        v.extend(harness::norm(&self.dbg()));
        v.push(self.sem.is_some() as u8);
        v.push(snap.queues[0].len() as u8);
        let mut rr: Vec<(u8, u8)> = self.rels.iter().map(|r| (code(r.1), r.2 as u8)).collect();
        rr.sort();
        for r in rr {
            v.push(r.0);
            v.push(r.1);
        }
        v
    }

    /// drain closure: return all permits, let every woken future poll again,
    /// repeat; at the end the longest-waiting request must not fit.
    fn finish(mut self, out: &mut StepOut) {
        if self.sem.is_none() {
            // without a handle nothing can be released explicitly: no drain closure
            return;
        }
        // return everything that is held
        let rels: Vec<_> = self.rels.drain(..).collect();
        for (r, amt, armed) in rels {
            let _ = lib(|| drop(r));
            let _ = lib(|| {
                if !armed {
                    F::release(self.sem(), amt)
                }
            });
            self.ledger += amt;
        }
        let mut rounds = 0;
        loop {
            rounds += 1;
            // completed slots give their permits back
            for i in 0..self.k {
                let give = match &mut self.slots[i] {
                    Some(s) if s.rel.is_some() => Some((s.rel.take().unwrap(), s.req, s.armed)),
                    _ => None,
                };
                if let Some((r, amt, armed)) = give {
                    let _ = lib(|| drop(r));
                    let _ = lib(|| {
                        if !armed {
                            F::release(self.sem(), amt)
                        }
                    });
                    self.ledger += amt;
                }
            }
            let woken: Vec<usize> = self.order().into_iter().filter(|&j| fresh(G, j, &self.slots[j].as_ref().unwrap().meta)).collect();
            if woken.is_empty() || rounds > 64 {
                break;
            }
            for j in woken {
                let last = self.slots[j].as_ref().unwrap().meta.last;
                let mut o = StepOut::default();
                self.apply(Op::Poll(j as u8, last), &mut o);
                for v in o.viol {
                    if v.prop != "C06" {
                        continue;
                    }
                    out.viol.push(v);
                }
            }
        }
        let order = self.order();
        if let Some(&head) = order.first() {
            let req = self.slots[head].as_ref().unwrap().req;
            let p = self.permits_now();
            if req <= p {
                out.v("C06", "drain-head-never-completes", format!("after all permits were returned and every woken future polled again, the longest-waiting request (slot {}, {} permits) is still pending although permits()={}", head, req, p));
            }
        }
        let _ = harness::take_alloc_counts();
    }
}
