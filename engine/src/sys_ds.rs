//! E-DS: exhaustive operation-sequence enumeration for the container modules.
//!   RingSys  - ArrayBuf / FixedHeapBuf / GrowingHeapBuf against VecDeque (C19)
//!   ListSys  - intrusive doubly linked list against VecDeque (C20)
//!   HeapSys  - intrusive pairing heap against a multiset (C20)

use crate::core::{Cfg, StepOut, System};
use crate::harness::{self, drops, lib, Tag};
use futures_intrusive::buffer::{ArrayBuf, FixedHeapBuf, GrowingHeapBuf, RingBuf};
use futures_intrusive::verif::{HeapNode, LinkedList, ListNode, PairingHeap};
use std::collections::VecDeque;

// ------------------------------------------------------------------- ring

#[derive(Clone, Copy, Debug, PartialEq)]
pub enum RingOp {
    Push,
    Pop,
}

pub trait MkBuf: RingBuf<Item = Tag> + 'static {
    fn mk(cap: usize) -> Self;
}
impl<const N: usize> MkBuf for ArrayBuf<Tag, [Tag; N]>
where
    [Tag; N]: futures_intrusive::buffer::RealArray<Tag> + AsMut<[Tag]> + AsRef<[Tag]>,
{
    fn mk(cap: usize) -> Self {
        assert_eq!(cap, N);
        Self::new()
    }
}
impl MkBuf for FixedHeapBuf<Tag> {
    fn mk(cap: usize) -> Self {
        Self::with_capacity(cap)
    }
}
impl MkBuf for GrowingHeapBuf<Tag> {
    fn mk(cap: usize) -> Self {
        Self::with_capacity(cap)
    }
}

pub struct RingSys<B: MkBuf> {
    buf: Option<B>,
    reference: VecDeque<u8>,
    popped: Vec<Tag>,
    cap: usize,
    next: u8,
    steps: usize,
    max_len: usize,
    hist: Vec<u8>,
}

impl<B: MkBuf> RingSys<B> {
    fn check(&self, out: &mut StepOut) {
        let b = self.buf.as_ref().unwrap();
        let r = lib(|| (b.len(), b.is_empty(), b.can_push(), b.capacity()));
        match r {
            Err(p) => out.v("C19", "panic", format!("len/is_empty/can_push/capacity panicked: {}", p)),
            Ok((len, empty, can, cap)) => {
                if len != self.reference.len() {
                    out.v("C19", "len", format!("len()={} but {} elements are stored", len, self.reference.len()));
                }
                if empty != self.reference.is_empty() {
                    out.v("C19", "is-empty", format!("is_empty()={} with {} stored elements", empty, self.reference.len()));
                }
                if can != (self.reference.len() < self.cap) {
                    out.v("C19", "can-push", format!("can_push()={} with {} stored elements and capacity {}", can, self.reference.len(), self.cap));
                }
                if cap != self.cap {
                    out.v("C19", "capacity", format!("capacity()={} for a buffer created with capacity {}", cap, self.cap));
                }
            }
        }
        for t in 0..self.next {
            if drops(t) != 0 {
                out.v("C19", "dropped-while-alive", format!("element {} was dropped by the buffer although it is {}", t, if self.reference.contains(&t) { "still stored" } else { "owned by the caller after pop()" }));
            }
        }
        // contents, through the inspection hook
        let mut i = 0;
        while let Some(x) = b.verif_get(i) {
            if self.reference.get(i) != Some(&x.0) {
                out.v("C19", "content", format!("stored element {} is {}, the reference FIFO holds {:?}", i, x.0, self.reference.get(i)));
            }
            i += 1;
        }
    }
}

impl<B: MkBuf> System for RingSys<B> {
    type Op = RingOp;
    fn new(cfg: &Cfg) -> Self {
        let cap = cfg.get("cap") as usize;
        RingSys { buf: Some(B::mk(cap)), reference: VecDeque::new(), popped: vec![], cap, next: 0, steps: 0, max_len: cfg.get("len") as usize, hist: vec![] }
    }
    fn enabled(&self) -> Vec<RingOp> {
        let mut v = vec![];
        if self.steps < self.max_len {
            if self.reference.len() < self.cap {
                v.push(RingOp::Push);
            }
            if !self.reference.is_empty() {
                v.push(RingOp::Pop);
            }
        }
        v
    }
    fn apply(&mut self, op: RingOp, out: &mut StepOut) {
        self.steps += 1;
        let b = self.buf.as_mut().unwrap();
        match op {
            RingOp::Push => {
                let t = self.next;
                self.next += 1;
                self.hist.push(0);
                match lib(|| b.push(Tag(t))) {
                    Ok(()) => self.reference.push_back(t),
                    Err(p) => out.v("C19", "panic", format!("push() panicked although can_push() must be true: {}", p)),
                }
            }
            RingOp::Pop => {
                self.hist.push(1);
                match lib(|| b.pop()) {
                    Ok(x) => {
                        out.o(&format!("{}", x.0));
                        let want = self.reference.pop_front();
                        if want != Some(x.0) {
                            out.v("C19", "fifo-order", format!("pop() returned element {}, insertion order says {:?}", x.0, want));
                        }
                        self.popped.push(x);
                    }
                    Err(p) => out.v("C19", "panic", format!("pop() panicked although the buffer is not empty: {}", p)),
                }
            }
        }
        self.check(out);
    }
    fn fingerprint(&self) -> Vec<u8> {
        // no merging: the property quantifies over all sequences up to the bound
        self.hist.clone()
    }
    fn finish(mut self, out: &mut StepOut) {
        if self.hist.is_empty() {
            // the observers of a freshly created buffer (every later state is checked by `apply`;
            // for capacity 0 the initial state is the only one)
            self.check(out);
        }
        let b = self.buf.take();
        if let Err(p) = lib(|| drop(b)) {
            out.v("C19", "panic", format!("dropping the buffer panicked: {}", p));
        }
        for t in 0..self.next {
            let d = drops(t);
            let stored = self.reference.contains(&t);
            if stored && d != 1 {
                out.v("C19", "leftover-drop-count", format!("element {} was still stored when the buffer was dropped and has been dropped {} times", t, d));
            }
            if !stored && d != 0 {
                out.v("C19", "popped-element-dropped", format!("element {} had been popped but was dropped {} times by the buffer", t, d));
            }
        }
    }
}

// ------------------------------------------------- zero-sized elements
// The same push / pop enumeration with a zero-sized element type that has a `Drop` impl: pointer
// arithmetic, `size_of`-based fast paths and `VecDeque::capacity()` (which is usize::MAX for a
// ZST) behave differently from every sized payload.

thread_local! {
    static ZDROPS: std::cell::Cell<usize> = std::cell::Cell::new(0);
}
pub struct ZTag;
impl Drop for ZTag {
    fn drop(&mut self) {
        ZDROPS.with(|c| c.set(c.get() + 1));
    }
}
fn zdrops() -> usize {
    ZDROPS.with(|c| c.get())
}

pub trait MkZBuf: RingBuf<Item = ZTag> + 'static {
    fn mk(cap: usize) -> Self;
}
impl<const N: usize> MkZBuf for ArrayBuf<ZTag, [ZTag; N]>
where
    [ZTag; N]: futures_intrusive::buffer::RealArray<ZTag> + AsMut<[ZTag]> + AsRef<[ZTag]>,
{
    fn mk(cap: usize) -> Self {
        assert_eq!(cap, N);
        Self::new()
    }
}
impl MkZBuf for FixedHeapBuf<ZTag> {
    fn mk(cap: usize) -> Self {
        Self::with_capacity(cap)
    }
}
impl MkZBuf for GrowingHeapBuf<ZTag> {
    fn mk(cap: usize) -> Self {
        Self::with_capacity(cap)
    }
}

pub struct ZstRingSys<B: MkZBuf> {
    buf: Option<B>,
    stored: usize,
    popped: Vec<ZTag>,
    cap: usize,
    steps: usize,
    max_len: usize,
    hist: Vec<u8>,
}

impl<B: MkZBuf> System for ZstRingSys<B> {
    type Op = RingOp;
    fn new(cfg: &Cfg) -> Self {
        let cap = cfg.get("cap") as usize;
        ZDROPS.with(|c| c.set(0));
        ZstRingSys { buf: Some(B::mk(cap)), stored: 0, popped: Vec::with_capacity(64), cap, steps: 0, max_len: cfg.get("len") as usize, hist: vec![] }
    }
    fn enabled(&self) -> Vec<RingOp> {
        let mut v = vec![];
        if self.steps < self.max_len {
            if self.stored < self.cap {
                v.push(RingOp::Push);
            }
            if self.stored > 0 {
                v.push(RingOp::Pop);
            }
        }
        v
    }
    fn apply(&mut self, op: RingOp, out: &mut StepOut) {
        self.steps += 1;
        let b = self.buf.as_mut().unwrap();
        match op {
            RingOp::Push => {
                self.hist.push(0);
                match lib(|| b.push(ZTag)) {
                    Ok(()) => self.stored += 1,
                    Err(p) => out.v("C19", "panic", format!("push() of a zero-sized element panicked although can_push() must be true: {}", p)),
                }
            }
            RingOp::Pop => {
                self.hist.push(1);
                match lib(|| b.pop()) {
                    Ok(x) => {
                        self.stored -= 1;
                        self.popped.push(x);
                    }
                    Err(p) => out.v("C19", "panic", format!("pop() panicked although the buffer is not empty: {}", p)),
                }
            }
        }
        let b = self.buf.as_ref().unwrap();
        match lib(|| (b.len(), b.is_empty(), b.can_push(), b.capacity())) {
            Err(p) => out.v("C19", "panic", format!("len/is_empty/can_push/capacity panicked: {}", p)),
            Ok((len, empty, can, cap)) => {
                if len != self.stored {
                    out.v("C19", "len", format!("zero-sized elements: len()={} but {} elements are stored", len, self.stored));
                }
                if empty != (self.stored == 0) {
                    out.v("C19", "is-empty", format!("zero-sized elements: is_empty()={} with {} stored elements", empty, self.stored));
                }
                if can != (self.stored < self.cap) {
                    out.v("C19", "can-push", format!("zero-sized elements: can_push()={} with {} stored elements and capacity {}", can, self.stored, self.cap));
                }
                if cap != self.cap {
                    out.v("C19", "capacity", format!("zero-sized elements: capacity()={} for a buffer created with capacity {}", cap, self.cap));
                }
            }
        }
        if zdrops() != 0 {
            out.v("C19", "dropped-while-alive", format!("{} zero-sized elements were dropped by the buffer while it is alive (stored or owned by the caller after pop())", zdrops()));
        }
    }
    fn fingerprint(&self) -> Vec<u8> {
        self.hist.clone()
    }
    fn finish(mut self, out: &mut StepOut) {
        if self.hist.is_empty() {
            // observers of a freshly created buffer (for capacity 0 the initial state is the only one)
            let b = self.buf.as_ref().unwrap();
            match lib(|| (b.len(), b.is_empty(), b.can_push(), b.capacity())) {
                Err(p) => out.v("C19", "panic", format!("len/is_empty/can_push/capacity of a new buffer panicked: {}", p)),
                Ok((len, empty, can, cap)) => {
                    if len != 0 || !empty || can != (self.cap > 0) || cap != self.cap {
                        out.v("C19", "capacity", format!("zero-sized elements: a new buffer created with capacity {} reports len()={} is_empty()={} can_push()={} capacity()={}", self.cap, len, empty, can, cap));
                    }
                }
            }
        }
        let b = self.buf.take();
        if let Err(p) = lib(|| drop(b)) {
            out.v("C19", "panic", format!("dropping the buffer panicked: {}", p));
        }
        if zdrops() != self.stored {
            out.v("C19", "leftover-drop-count", format!("{} zero-sized elements were stored when the buffer was dropped, {} were dropped", self.stored, zdrops()));
        }
        self.popped.clear();
        ZDROPS.with(|c| c.set(0));
    }
}

// ------------------------------------------------- large / unusual capacities

/// a user-defined backing array whose length (96) is neither <= 64 nor a power of two
pub struct A96([Tag; 96]);
impl AsRef<[Tag]> for A96 {
    fn as_ref(&self) -> &[Tag] {
        &self.0
    }
}
impl AsMut<[Tag]> for A96 {
    fn as_mut(&mut self) -> &mut [Tag] {
        &mut self.0
    }
}
unsafe impl futures_intrusive::buffer::RealArray<Tag> for A96 {
    const LEN: usize = 96;
}
impl MkBuf for ArrayBuf<Tag, A96> {
    fn mk(cap: usize) -> Self {
        assert_eq!(cap, 96);
        Self::new()
    }
}

/// a user-defined backing array with an alignment attribute: `size_of` is 64, the length is 3
#[repr(align(64))]
pub struct Al3([Tag; 3]);
impl AsRef<[Tag]> for Al3 {
    fn as_ref(&self) -> &[Tag] {
        &self.0
    }
}
impl AsMut<[Tag]> for Al3 {
    fn as_mut(&mut self) -> &mut [Tag] {
        &mut self.0
    }
}
unsafe impl futures_intrusive::buffer::RealArray<Tag> for Al3 {
    const LEN: usize = 3;
}
impl MkBuf for ArrayBuf<Tag, Al3> {
    fn mk(cap: usize) -> Self {
        assert_eq!(cap, 3);
        Self::new()
    }
}
/// ... and one whose storage is larger than LEN elements because it carries a trailing field
#[repr(C)]
pub struct Pad2 {
    items: [Tag; 2],
    _trailer: [u64; 4],
}
impl AsRef<[Tag]> for Pad2 {
    fn as_ref(&self) -> &[Tag] {
        &self.items
    }
}
impl AsMut<[Tag]> for Pad2 {
    fn as_mut(&mut self) -> &mut [Tag] {
        &mut self.items
    }
}
unsafe impl futures_intrusive::buffer::RealArray<Tag> for Pad2 {
    const LEN: usize = 2;
}
impl MkBuf for ArrayBuf<Tag, Pad2> {
    fn mk(cap: usize) -> Self {
        assert_eq!(cap, 2);
        Self::new()
    }
}

#[derive(Clone, Copy, Debug, PartialEq)]
pub enum ScriptOp {
    /// fill the buffer, pop x elements, fill it again, pop everything, fill half, drop
    Cycle(u8),
}

/// Long scripted sequences for capacities the exhaustive enumeration cannot reach (C19 asks for
/// index wrap-around in general; the exhaustive part covers capacities 0..4): for every x in a small
/// set the sequence `push^cap pop^x push^x pop^cap push^(cap/2) drop` is checked step by step
/// against the reference FIFO.
pub struct RingScript<B: MkBuf> {
    cap: usize,
    done: bool,
    _p: std::marker::PhantomData<B>,
}

impl<B: MkBuf> System for RingScript<B> {
    type Op = ScriptOp;
    fn new(cfg: &Cfg) -> Self {
        RingScript { cap: cfg.get("cap") as usize, done: false, _p: std::marker::PhantomData }
    }
    fn enabled(&self) -> Vec<ScriptOp> {
        if self.done {
            return vec![];
        }
        let c = self.cap;
        let mut xs = vec![1usize, 2, c / 3, c / 2, c.saturating_sub(1), c];
        xs.retain(|&x| x >= 1 && x <= c);
        xs.sort();
        xs.dedup();
        xs.into_iter().map(|x| ScriptOp::Cycle(x as u8)).collect()
    }
    fn apply(&mut self, op: ScriptOp, out: &mut StepOut) {
        let ScriptOp::Cycle(x) = op;
        let x = x as usize;
        self.done = true;
        let mut sys = RingSys::<B> { buf: Some(B::mk(self.cap)), reference: VecDeque::new(), popped: vec![], cap: self.cap, next: 0, steps: 0, max_len: usize::MAX, hist: vec![] };
        let mut script: Vec<RingOp> = vec![];
        script.extend(std::iter::repeat(RingOp::Push).take(self.cap));
        script.extend(std::iter::repeat(RingOp::Pop).take(x));
        script.extend(std::iter::repeat(RingOp::Push).take(x));
        script.extend(std::iter::repeat(RingOp::Pop).take(self.cap));
        script.extend(std::iter::repeat(RingOp::Push).take(self.cap / 2));
        for (i, o) in script.iter().enumerate() {
            if sys.next == 255 {
                break;
            }
            sys.apply(*o, out);
            if !out.viol.is_empty() {
                out.o(&format!("failed-at-step-{}", i));
                // the elements are leaked on purpose: the buffer state is suspect
                std::mem::forget(sys);
                return;
            }
        }
        sys.finish(out);
    }
    fn fingerprint(&self) -> Vec<u8> {
        vec![self.done as u8]
    }
    fn finish(self, _out: &mut StepOut) {}
}

// ------------------------------------------------- the largest built-in backing array
/// `[T; 65536]` is the largest array size the crate implements `RealArray` for. One scripted
/// history (fill to the brim, rotate, drain, refill half) with O(1) checks per step against a
/// VecDeque reference: len / is_empty / can_push after every operation, FIFO order of every pop.
pub struct BigRing {
    done: bool,
}
#[derive(Clone, Copy, Debug, PartialEq)]
pub enum BigRingOp {
    Run,
}
impl System for BigRing {
    type Op = BigRingOp;
    fn new(_cfg: &Cfg) -> Self {
        BigRing { done: false }
    }
    fn enabled(&self) -> Vec<BigRingOp> {
        if self.done {
            vec![]
        } else {
            vec![BigRingOp::Run]
        }
    }
    fn apply(&mut self, _op: BigRingOp, out: &mut StepOut) {
        self.done = true;
        const N: usize = 65536;
        let mut buf: Box<ArrayBuf<u32, [u32; N]>> = Box::new(ArrayBuf::new());
        let mut reference: VecDeque<u32> = VecDeque::with_capacity(N);
        let mut next = 0u32;
        let mut step = 0usize;
        macro_rules! check {
            () => {{
                step += 1;
                if step % 4096 == 0 {
                    crate::core::heartbeat();
                }
                let (len, empty, can, cap) = (buf.len(), buf.is_empty(), buf.can_push(), buf.capacity());
                if len != reference.len() || empty != reference.is_empty() || can != (reference.len() < N) || cap != N {
                    out.v("C19", "len", format!("[T; 65536] after {} operations: len()={} is_empty()={} can_push()={} capacity()={}, but {} elements are stored", step, len, empty, can, cap, reference.len()));
                    return;
                }
            }};
        }
        macro_rules! push {
            () => {{
                if let Err(p) = lib(|| buf.push(next)) {
                    out.v("C19", "panic", format!("push number {} panicked: {}", step + 1, p));
                    return;
                }
                reference.push_back(next);
                next += 1;
                check!();
            }};
        }
        macro_rules! pop {
            () => {{
                match lib(|| buf.pop()) {
                    Ok(x) => {
                        let want = reference.pop_front();
                        if Some(x) != want {
                            out.v("C19", "fifo-order", format!("[T; 65536]: pop() returned {}, insertion order says {:?}", x, want));
                            return;
                        }
                    }
                    Err(p) => {
                        out.v("C19", "panic", format!("pop() panicked although the buffer is not empty: {}", p));
                        return;
                    }
                }
                check!();
            }};
        }
        for _ in 0..N {
            push!();
        }
        for _ in 0..1000 {
            pop!();
        }
        for _ in 0..1000 {
            push!();
        }
        for _ in 0..N {
            pop!();
        }
        for _ in 0..N / 2 {
            push!();
        }
        let _ = harness::take_alloc_counts();
        out.o("ok");
    }
    fn fingerprint(&self) -> Vec<u8> {
        vec![self.done as u8]
    }
    fn finish(self, _out: &mut StepOut) {}
}

// ------------------------------------------------------------------- list

#[derive(Clone, Copy, Debug, PartialEq)]
pub enum ListOp {
    AddFront(u8),
    RemoveFirst,
    RemoveLast,
    Remove(u8),
    Drain,
    ReverseDrain,
}

pub struct ListSys {
    list: LinkedList<u32>,
    nodes: Vec<Box<ListNode<u32>>>,
    reference: VecDeque<u8>,
}

impl ListSys {
    fn idx(&self, addr: usize) -> Option<usize> {
        self.nodes.iter().position(|n| &**n as *const ListNode<u32> as usize == addr)
    }
    fn validate(&self, out: &mut StepOut) {
        let mut order: Vec<u8> = vec![];
        let mut unknown = false;
        let r = self.list.verif_walk(64, &mut |n| match self.idx(n as *const ListNode<u32> as usize) {
            Some(i) => order.push(i as u8),
            None => unknown = true,
        });
        if let Err(e) = r {
            out.v("C20", "list-links", e.to_string());
            out.corrupt = true;
        }
        if unknown {
            out.v("C20", "list-links", "the list reaches a node that is not one of the harness nodes".to_string());
            out.corrupt = true;
        }
        let want: Vec<u8> = self.reference.iter().copied().collect();
        if order != want {
            out.v("C20", "list-content", format!("list holds {:?} (front to back), the reference deque holds {:?}", order, want));
        }
        for (i, n) in self.nodes.iter().enumerate() {
            if !self.reference.contains(&(i as u8)) && n.verif_links() != [0, 0] {
                out.v("C20", "removed-node-has-links", format!("node {} is not a member but carries links {:x?}", i, n.verif_links()));
                out.corrupt = true;
            }
        }
        let ends = self.list.verif_ends();
        let head = if ends[0] == 0 { None } else { self.idx(ends[0]).map(|i| i as u8) };
        let tail = if ends[1] == 0 { None } else { self.idx(ends[1]).map(|i| i as u8) };
        if head != want.first().copied() || tail != want.last().copied() {
            out.v("C20", "list-ends", format!("head={:?} tail={:?}, reference front={:?} back={:?}", head, tail, want.first(), want.last()));
        }
        let pf = self.list.peek_first().map(|n| **n as u8);
        let pl = self.list.peek_last().map(|n| **n as u8);
        if pf != want.first().copied() || pl != want.last().copied() {
            out.v("C20", "list-peek", format!("peek_first={:?} peek_last={:?}, reference front={:?} back={:?}", pf, pl, want.first(), want.last()));
        }
        if self.list.is_empty() != want.is_empty() {
            out.v("C20", "list-is-empty", format!("is_empty()={} with {} members", self.list.is_empty(), want.len()));
        }
    }
}

impl System for ListSys {
    type Op = ListOp;
    fn new(cfg: &Cfg) -> Self {
        let n = cfg.get("n") as usize;
        ListSys { list: LinkedList::new(), nodes: (0..n).map(|i| Box::new(ListNode::new(i as u32))).collect(), reference: VecDeque::new() }
    }
    fn enabled(&self) -> Vec<ListOp> {
        let mut v = vec![ListOp::RemoveFirst, ListOp::RemoveLast, ListOp::Drain, ListOp::ReverseDrain];
        for i in 0..self.nodes.len() {
            if !self.reference.contains(&(i as u8)) {
                v.push(ListOp::AddFront(i as u8));
            }
            v.push(ListOp::Remove(i as u8));
        }
        v
    }
    fn apply(&mut self, op: ListOp, out: &mut StepOut) {
        match op {
            ListOp::AddFront(i) => {
                let node: *mut ListNode<u32> = &mut *self.nodes[i as usize];
                if let Err(p) = lib(|| unsafe { self.list.add_front(&mut *node) }) {
                    out.v("C20", "panic", format!("add_front panicked: {}", p));
                    out.corrupt = true;
                }
                self.reference.push_front(i);
            }
            ListOp::RemoveFirst | ListOp::RemoveLast => {
                let first = op == ListOp::RemoveFirst;
                let got = lib(|| if first { self.list.remove_first().map(|n| **n as u8) } else { self.list.remove_last().map(|n| **n as u8) });
                let want = if first { self.reference.pop_front() } else { self.reference.pop_back() };
                match got {
                    Err(p) => {
                        out.v("C20", "panic", format!("{:?} panicked: {}", op, p));
                        out.corrupt = true;
                    }
                    Ok(g) => {
                        out.o(&format!("{:?}", g));
                        if g != want {
                            out.v("C20", "list-remove-end", format!("{:?} returned {:?}, reference says {:?}", op, g, want));
                        }
                    }
                }
            }
            ListOp::Remove(i) => {
                let node: *mut ListNode<u32> = &mut *self.nodes[i as usize];
                let member = self.reference.contains(&i);
                match lib(|| unsafe { self.list.remove(&mut *node) }) {
                    Err(p) => {
                        out.v("C20", "panic", format!("remove(node {}) panicked: {}", i, p));
                        out.corrupt = true;
                    }
                    Ok(r) => {
                        out.o(&format!("{}", r));
                        if r != member {
                            out.v("C20", "list-remove-result", format!("remove(node {}) returned {} but the node {} a member", i, r, if member { "is" } else { "is not" }));
                        }
                    }
                }
                self.reference.retain(|&x| x != i);
            }
            ListOp::Drain | ListOp::ReverseDrain => {
                let mut seen: Vec<u8> = vec![];
                let rev = op == ListOp::ReverseDrain;
                let r = lib(|| {
                    if rev {
                        self.list.reverse_drain(|n| seen.push(**n as u8))
                    } else {
                        self.list.drain(|n| seen.push(**n as u8))
                    }
                });
                if let Err(p) = r {
                    out.v("C20", "panic", format!("{:?} panicked: {}", op, p));
                    out.corrupt = true;
                }
                let mut want: Vec<u8> = self.reference.iter().copied().collect();
                if rev {
                    want.reverse();
                }
                if seen != want {
                    out.v("C20", "list-drain-order", format!("{:?} visited {:?}, reference order is {:?}", op, seen, want));
                }
                self.reference.clear();
            }
        }
        self.validate(out);
    }
    fn fingerprint(&self) -> Vec<u8> {
        let mut v: Vec<u8> = self.reference.iter().copied().collect();
        // complete rendering of the list and of every node (fields this harness does not know
        // about included), addresses replaced by node indices
        v.push(255);
        let mut name = |a: usize| self.idx(a).map_or(250, |i| i as u8);
        v.extend(harness::norm_with(&format!("{:?}", self.list), &mut name));
        for n in &self.nodes {
            v.extend(harness::norm_with(&format!("{:?}", n), &mut name));
        }
        v
    }
    fn finish(self, _out: &mut StepOut) {}
}

// ------------------------------------------------------------------- heap

#[derive(Clone, Copy, Debug, PartialEq)]
pub enum HeapOp {
    /// choose the key vector (base-3 digits), first step only
    Keys(u16),
    Insert(u8),
    Remove(u8),
}

pub struct HeapSys {
    heap: PairingHeap<u32>,
    nodes: Vec<Box<HeapNode<u32>>>,
    member: Vec<bool>,
    n: usize,
    keys_chosen: Option<u16>,
    fixed_keys: Option<Vec<u32>>,
    key_values: u32,
}

impl HeapSys {
    fn idx(&self, addr: usize) -> Option<usize> {
        self.nodes.iter().position(|n| &**n as *const HeapNode<u32> as usize == addr)
    }
    /// structural validator; returns the canonical tree shape
    fn shape(&self, out: &mut StepOut) -> Vec<u8> {
        let mut pre: Vec<(usize, u32, u32)> = vec![]; // (node, depth, key)
        let mut unknown = false;
        let r = self.heap.verif_walk(64, &mut |n, d| match self.idx(n as *const HeapNode<u32> as usize) {
            Some(i) => pre.push((i, d, **n)),
            None => unknown = true,
        });
        if let Err(e) = r {
            out.v("C20", "heap-links", e.to_string());
            out.corrupt = true;
        }
        if unknown {
            out.v("C20", "heap-links", "the heap reaches a node that is not one of the harness nodes".to_string());
            out.corrupt = true;
        }
        let mut reach = vec![0u8; self.nodes.len()];
        for (idx, &(i, d, key)) in pre.iter().enumerate() {
            reach[i] += 1;
            if d > 0 {
                if let Some(parent) = pre[..idx].iter().rev().find(|p| p.1 == d - 1) {
                    if parent.2 > key {
                        out.v("C20", "heap-order", format!("node {} (key {}) is a child of node {} (key {})", i, key, parent.0, parent.2));
                    }
                }
            }
        }
        for i in 0..self.nodes.len() {
            if self.member[i] && reach[i] != 1 {
                out.v("C20", "heap-membership", format!("member node {} is reachable {} times", i, reach[i]));
                out.corrupt = true;
            }
            if !self.member[i] && reach[i] != 0 {
                out.v("C20", "heap-membership", format!("removed node {} is still reachable", i));
                out.corrupt = true;
            }
            if !self.member[i] && self.nodes[i].verif_links() != [0; 4] {
                out.v("C20", "removed-node-has-links", format!("node {} is not a member but carries links {:x?}", i, self.nodes[i].verif_links()));
                out.corrupt = true;
            }
        }
        // peek_min
        let min = (0..self.nodes.len()).filter(|&i| self.member[i]).map(|i| **self.nodes[i]).min();
        let pm = self.heap.peek_min().map(|p| p.as_ptr() as usize);
        match (min, pm) {
            (None, None) => {}
            (Some(m), Some(a)) => match self.idx(a) {
                Some(i) if self.member[i] && **self.nodes[i] == m => {}
                Some(i) => out.v("C20", "peek-min", format!("peek_min is node {} (key {}, member {}), the minimum key among members is {}", i, **self.nodes[i], self.member[i], m)),
                None => out.v("C20", "peek-min", "peek_min is not one of the harness nodes".to_string()),
            },
            (a, b) => out.v("C20", "peek-min", format!("peek_min is {:?} but the minimum member key is {:?}", b.is_some(), a)),
        }
        let mut shape = vec![];
        for (i, d, _) in pre {
            shape.push(i as u8);
            shape.push(d as u8);
        }
        shape
    }
}

impl System for HeapSys {
    type Op = HeapOp;
    fn new(cfg: &Cfg) -> Self {
        let n = cfg.get("n") as usize;
        let kv = cfg.get_or("key_values", 3) as u32;
        let fixed = cfg.get_or("fixed_keys", -1);
        let fixed_keys = if fixed >= 0 {
            let mut v = vec![];
            let mut x = fixed as u64;
            for _ in 0..n {
                v.push((x % 10) as u32);
                x /= 10;
            }
            Some(v)
        } else {
            None
        };
        let nodes = match &fixed_keys {
            Some(k) => k.iter().map(|&k| Box::new(HeapNode::new(k))).collect(),
            None => vec![],
        };
        HeapSys { heap: PairingHeap::new(), member: vec![false; nodes.len()], nodes, n, keys_chosen: None, fixed_keys, key_values: kv }
    }
    fn enabled(&self) -> Vec<HeapOp> {
        if self.fixed_keys.is_none() && self.keys_chosen.is_none() {
            // key vectors up to permutation of node ids are equivalent only for
            // insertion order, which the search explores anyway; still, enumerate
            // every vector - the space is tiny
            return (0..(self.key_values as u64).pow(self.n as u32) as u16).map(HeapOp::Keys).collect();
        }
        (0..self.nodes.len()).map(|i| if self.member[i] { HeapOp::Remove(i as u8) } else { HeapOp::Insert(i as u8) }).collect()
    }
    fn apply(&mut self, op: HeapOp, out: &mut StepOut) {
        match op {
            HeapOp::Keys(v) => {
                let mut x = v as u32;
                for _ in 0..self.n {
                    self.nodes.push(Box::new(HeapNode::new(x % self.key_values)));
                    x /= self.key_values;
                }
                self.member = vec![false; self.n];
                self.keys_chosen = Some(v);
            }
            HeapOp::Insert(i) => {
                let node: *mut HeapNode<u32> = &mut *self.nodes[i as usize];
                if let Err(p) = lib(|| unsafe { self.heap.insert(&mut *node) }) {
                    out.v("C20", "panic", format!("insert(node {}) panicked: {}", i, p));
                    out.corrupt = true;
                }
                self.member[i as usize] = true;
            }
            HeapOp::Remove(i) => {
                let node: *mut HeapNode<u32> = &mut *self.nodes[i as usize];
                if let Err(p) = lib(|| unsafe { self.heap.remove(&mut *node) }) {
                    out.v("C20", "panic", format!("remove(node {}) panicked: {}", i, p));
                    out.corrupt = true;
                }
                self.member[i as usize] = false;
            }
        }
        let _ = self.shape(out);
    }
    fn fingerprint(&self) -> Vec<u8> {
        let mut o = StepOut::default();
        let mut v = vec![];
        let k = self.keys_chosen.unwrap_or(u16::MAX);
        v.push((k >> 8) as u8);
        v.push(k as u8);
        v.extend(self.shape(&mut o));
        v.push(255);
        let mut name = |a: usize| self.idx(a).map_or(250, |i| i as u8);
        v.extend(harness::norm_with(&format!("{:?}", self.heap), &mut name));
        for n in &self.nodes {
            v.extend(harness::norm_with(&format!("{:?}", n), &mut name));
        }
        v
    }
    fn finish(self, _out: &mut StepOut) {}
}


// ---------------------------------------------------------------------------------------------
// Scripted heap histories with many nodes (pairing heap as a priority queue of N = 1 000 and
// 65 538 elements): ascending, descending, equal and zig-zag key orders, then remove-min until
// empty, resp. removal of every second node first. Runs on a 256 KiB thread like the burst
// scripts: the unchanged heap is iterative; a merge whose recursion depth is proportional to the
// number of children of the removed node overflows that stack.

#[derive(Clone, Copy, Debug, PartialEq)]
pub enum HeapScriptOp {
    Run(u8),
}

pub struct HeapScript {
    ran: Option<u8>,
}

const HS_SIZES: [usize; 2] = [1000, 65538];

fn heap_script(pattern: u8, n: usize, out: &mut StepOut) {
    let key = |i: usize| -> u32 {
        match pattern {
            0 => i as u32,
            1 => (n - i) as u32,
            2 => 7,
            _ => if i % 2 == 0 { i as u32 } else { (n - i) as u32 },
        }
    };
    let mut nodes: Vec<Box<HeapNode<u32>>> = (0..n).map(|i| Box::new(HeapNode::new(key(i)))).collect();
    let mut heap: PairingHeap<u32> = PairingHeap::new();
    let mut member = vec![false; n];
    for i in 0..n {
        if i % 512 == 0 {
            crate::core::heartbeat();
        }
        let p: *mut HeapNode<u32> = &mut *nodes[i];
        if let Err(e) = lib(|| unsafe { heap.insert(&mut *p) }) {
            out.v("C20", "panic", format!("insert number {} of {} panicked: {}", i + 1, n, e));
            std::mem::forget(nodes);
            return;
        }
        member[i] = true;
    }
    let mut left = n;
    // pattern 3: every second node is removed by address first
    if pattern == 3 {
        for i in (0..n).step_by(2) {
            let p: *mut HeapNode<u32> = &mut *nodes[i];
            if let Err(e) = lib(|| unsafe { heap.remove(&mut *p) }) {
                out.v("C20", "panic", format!("remove(node {}) panicked: {}", i, e));
                std::mem::forget(nodes);
                return;
            }
            member[i] = false;
            left -= 1;
        }
    }
    let mut last = 0u32;
    while left > 0 {
        if left % 512 == 0 {
            crate::core::heartbeat();
        }
        let m = match heap.peek_min() {
            Some(m) => m.as_ptr(),
            None => {
                out.v("C20", "peek-min", format!("peek_min() is None although {} of {} nodes are members", left, n));
                std::mem::forget(nodes);
                return;
            }
        };
        let k = unsafe { **m };
        if k < last {
            out.v("C20", "peek-min", format!("remove-min sequence is not sorted: key {} after key {} ({} of {} nodes left)", k, last, left, n));
            std::mem::forget(nodes);
            return;
        }
        last = k;
        if let Err(e) = lib(|| unsafe { heap.remove(&mut *m) }) {
            out.v("C20", "panic", format!("remove(min) panicked with {} of {} nodes left: {}", left, n, e));
            std::mem::forget(nodes);
            return;
        }
        left -= 1;
    }
    if heap.peek_min().is_some() {
        out.v("C20", "peek-min", "peek_min() is Some after every member was removed".to_string());
    }
    let _ = member;
    let _ = harness::take_alloc_counts();
}

impl System for HeapScript {
    type Op = HeapScriptOp;
    fn new(_cfg: &Cfg) -> Self {
        HeapScript { ran: None }
    }
    fn enabled(&self) -> Vec<HeapScriptOp> {
        if self.ran.is_some() {
            vec![]
        } else {
            (0..(4 * HS_SIZES.len()) as u8).map(HeapScriptOp::Run).collect()
        }
    }
    fn apply(&mut self, op: HeapScriptOp, out: &mut StepOut) {
        let HeapScriptOp::Run(i) = op;
        self.ran = Some(i);
        let (pattern, n) = (i % 4, HS_SIZES[(i / 4) as usize]);
        let name = format!("script|C20|ds.heapscript(x=0)|{:?}|n={}", op, n);
        let res = std::thread::scope(|sc| {
            std::thread::Builder::new()
                .name(name)
                .stack_size(256 * 1024)
                .spawn_scoped(sc, || {
                    let mut o = StepOut::default();
                    heap_script(pattern, n, &mut o);
                    o
                })
                .expect("spawn script thread")
                .join()
        });
        match res {
            Ok(o) => {
                out.viol.extend(o.viol);
                out.corrupt |= o.corrupt;
                out.o(&format!("pattern {} n {} ok", pattern, n));
            }
            Err(_) => out.v("C20", "panic", "the script thread panicked outside a library call".to_string()),
        }
    }
    fn fingerprint(&self) -> Vec<u8> {
        vec![self.ran.map_or(255, |v| v)]
    }
    fn finish(self, _out: &mut StepOut) {}
}
