//! E-SEQ system: timer service (LocalTimer on NoopLock / Timer on parking_lot).
//! Monitors: C01 (heap structure), C15, C17, C18.

use crate::core::{Cfg, StepOut, System};
use crate::harness::{self, fresh, lib, sample_seen, stale_wake, wid, Meta, Pinned};
use crate::structcheck::{self, LiveNode};
use futures_core::future::FusedFuture;
use futures_intrusive::timer::{GenericTimerService, LocalTimer, LocalTimerFuture, MockClock, Timer, TimerFuture};
use futures_intrusive::verif::{NoopLock, NodeSnap};
use std::future::Future;
use std::marker::PhantomData;
use std::task::{Context, Poll};
use std::time::Duration;

pub trait Flavor: 'static {
    type M: lock_api::RawMutex + 'static;
    type Fut: Future<Output = ()> + FusedFuture;
    fn deadline(t: &'static GenericTimerService<Self::M>, ts: u64) -> Self::Fut;
    fn delay(t: &'static GenericTimerService<Self::M>, d: Duration) -> Self::Fut;
    fn node(f: &Self::Fut) -> NodeSnap;
    fn node_debug(f: &Self::Fut) -> String;
}

pub struct Local;
pub struct Std;

impl Flavor for Local {
    type M = NoopLock;
    type Fut = LocalTimerFuture<'static>;
    fn deadline(t: &'static GenericTimerService<NoopLock>, ts: u64) -> Self::Fut {
        LocalTimer::deadline(t, ts)
    }
    fn delay(t: &'static GenericTimerService<NoopLock>, d: Duration) -> Self::Fut {
        LocalTimer::delay(t, d)
    }
    fn node(f: &Self::Fut) -> NodeSnap {
        f.verif_node()
    }
    fn node_debug(f: &Self::Fut) -> String {
        f.verif_node_debug()
    }
}

impl Flavor for Std {
    type M = parking_lot::RawMutex;
    type Fut = TimerFuture<'static>;
    fn deadline(t: &'static GenericTimerService<parking_lot::RawMutex>, ts: u64) -> Self::Fut {
        Timer::deadline(t, ts)
    }
    fn delay(t: &'static GenericTimerService<parking_lot::RawMutex>, d: Duration) -> Self::Fut {
        Timer::delay(t, d)
    }
    fn node(f: &Self::Fut) -> NodeSnap {
        f.verif_node()
    }
    fn node_debug(f: &Self::Fut) -> String {
        f.verif_node_debug()
    }
}

thread_local! {
    static CLOCK: &'static MockClock = Box::leak(Box::new(MockClock::new()));
}
fn clock() -> &'static MockClock {
    CLOCK.with(|c| *c)
}

#[derive(Clone, Copy, Debug, PartialEq)]
pub enum Op {
    /// deadline(clock0 + d)
    Deadline(u8, u8),
    /// delay: 0 = 0 ms, 1 = 1 ms, 2 = 2 ms, 8 = 2^64 + 5 ms, 9 = Duration::MAX
    Delay(u8, u8),
    Poll(u8, u8),
    PollDone(u8),
    DropFut(u8),
    /// advance the clock by n
    Advance(u8),
    Check,
}

struct Slot<F: Flavor> {
    fut: Pinned<F::Fut>,
    meta: Meta,
    deadline: u64,
    registered: bool,
    /// a check_expirations() that observed clock >= deadline ran while registered
    expired: bool,
}

pub struct Sys<F: Flavor> {
    slots: Vec<Option<Slot<F>>>,
    graveyard: Vec<Pinned<F::Fut>>,
    dead: Vec<(usize, usize)>,
    timer: Box<GenericTimerService<F::M>>,
    k: usize,
    clock0: u64,
    now: u64,
    max_clock: u64,
    deadlines: Vec<u8>,
    delays: Vec<u8>,
    symmetry: bool,
    _p: PhantomData<F>,
}

const G: usize = 0;

impl<F: Flavor> Sys<F> {
    fn tref(&self) -> &'static GenericTimerService<F::M> {
        unsafe { &*(&*self.timer as *const GenericTimerService<F::M>) }
    }
    fn live_nodes(&self) -> Vec<LiveNode> {
        let mut v = vec![];
        for (i, s) in self.slots.iter().enumerate() {
            if let Some(s) = s {
                let node = F::node(s.fut.get());
                v.push(LiveNode::new(G, i, node, &s.meta));
            }
        }
        v
    }
    fn model_min(&self) -> Option<u64> {
        self.slots.iter().flatten().filter(|s| s.registered && !s.expired && !s.meta.done).map(|s| s.deadline).min()
    }

    fn invariants(&mut self, out: &mut StepOut) {
        let (na, nf) = harness::take_alloc_counts();
        if na + nf > 0 {
            out.p("C18", "alloc-in-call", format!("{} allocations / {} frees inside library calls of this step", na, nf));
        }
        let snap = self.timer.verif_snapshot();
        let live = self.live_nodes();
        structcheck::check_errors(&snap.errors, out);
        structcheck::check_queue("timer heap", &snap.queues[0], &live, &self.dead, out);
        // heap members have non-zero links only through the heap; unlinked nodes carry none
        structcheck::check_membership(&[&snap.queues[0]], &live, out);
        // (heap order is not part of C01; a mis-ordered heap shows up as a wrong next_expiration()
        // or wake order under C15 and is validated edge by edge for the heap itself under C20)
        for (i, s) in self.slots.iter().enumerate() {
            if let Some(s) = s {
                if s.fut.get().is_terminated() != s.meta.done {
                    out.p("C17", "is-terminated", format!("slot {}: is_terminated()={} but completed={}", i, s.fut.get().is_terminated(), s.meta.done));
                }
                if s.meta.pending() && s.expired && !fresh(G, i, &s.meta) {
                    out.p("C15", "due-not-woken", format!("slot {}: check_expirations() ran with clock >= deadline {} but the future has not been woken through the waker of its latest poll", i, s.deadline));
                }
            }
        }
        let ne = lib(|| self.timer.next_expiration());
        match ne {
            Err(p) => out.v("C01", "panic", format!("next_expiration() panicked: {}", p)),
            Ok(ne) => {
                let m = self.model_min();
                if ne != m {
                    out.v("C15", "next-expiration", format!("next_expiration()={:?} but the smallest deadline among registered, unexpired futures is {:?}", ne, m));
                }
            }
        }
        let _ = harness::take_alloc_counts();
    }
}

impl<F: Flavor> System for Sys<F> {
    type Op = Op;

    fn new(cfg: &Cfg) -> Self {
        let k = cfg.get("k") as usize;
        let clock0 = cfg.get_or("clock0", 0) as u64;
        clock().set_time(clock0);
        let dl = cfg.get_or("deadlines", 0b1110);
        let de = cfg.get_or("delays", 0b10_0000_0011);
        Sys {
            slots: (0..k).map(|_| None).collect(),
            graveyard: vec![],
            dead: vec![],
            timer: Box::new(GenericTimerService::new(clock())),
            k,
            clock0,
            now: clock0,
            max_clock: clock0 + cfg.get_or("span", 4) as u64,
            deadlines: (0..10u8).filter(|b| dl & (1 << b) != 0).collect(),
            delays: (0..10u8).filter(|b| de & (1 << b) != 0).collect(),
            symmetry: cfg.get_or("symmetry", 1) != 0,
            _p: PhantomData,
        }
    }

    fn enabled(&self) -> Vec<Op> {
        let mut v = vec![];
        let mut created = false;
        for i in 0..self.k {
            match &self.slots[i] {
                None => {
                    if !(self.symmetry && created) {
                        for &d in &self.deadlines {
                            v.push(Op::Deadline(i as u8, d));
                        }
                        for &d in &self.delays {
                            v.push(Op::Delay(i as u8, d));
                        }
                        created = true;
                    }
                }
                Some(s) => {
                    if !s.meta.done {
                        v.push(Op::Poll(i as u8, 0));
                        v.push(Op::Poll(i as u8, 1));
                    } else if !s.meta.repolled {
                        v.push(Op::PollDone(i as u8));
                    }
                    v.push(Op::DropFut(i as u8));
                }
            }
        }
        for n in 1..=2u8 {
            if self.now + n as u64 <= self.max_clock {
                v.push(Op::Advance(n));
            }
        }
        v.push(Op::Check);
        v
    }

    fn apply(&mut self, op: Op, out: &mut StepOut) {
        let wakes_before = harness::all_wakes();
        clock().set_time(self.now);
        match op {
            Op::Deadline(i, d) | Op::Delay(i, d) => {
                let i = i as usize;
                let t = self.tref();
                let is_deadline = matches!(op, Op::Deadline(..));
                let (deadline, r) = if is_deadline {
                    let ts = self.clock0 + d as u64;
                    (ts, lib(|| F::deadline(t, ts)))
                } else {
                    let dur = if d == 9 { Duration::MAX } else if d == 8 { Duration::new(18_446_744_073_709_551, 621_000_000) } else { Duration::from_millis(d as u64) };
                    let ms = std::cmp::min(dur.as_millis(), u64::MAX as u128) as u64;
                    (self.now.saturating_add(ms), lib(|| F::delay(t, dur)))
                };
                match r {
                    Ok(f) => {
                        let mut meta = Meta::default();
                        meta.seen = sample_seen(G, i);
                        self.slots[i] = Some(Slot { fut: Pinned::new(f), meta, deadline, registered: false, expired: false });
                    }
                    Err(p) => out.v("C01", "panic", format!("creating a timer future panicked: {}", p)),
                }
            }
            Op::Poll(i, w) => {
                let i = i as usize;
                let seen = sample_seen(G, i);
                let waker = harness::waker(wid(G, i, w));
                let now = self.now;
                let s = self.slots[i].as_mut().unwrap();
                let first = !s.meta.polled;
                let r = lib(|| s.fut.pin().poll(&mut Context::from_waker(&waker)));
                s.meta.polled = true;
                s.meta.last = w;
                s.meta.seen = seen;
                let expect_ready = if first { now >= s.deadline } else { s.expired };
                match r {
                    Err(p) => {
                        out.v("C01", "panic", format!("poll of slot {} panicked: {}", i, p));
                        out.corrupt = true;
                        s.meta.done = true;
                    }
                    Ok(Poll::Ready(())) => {
                        out.o("Ready");
                        s.meta.done = true;
                        if now < s.deadline {
                            out.v("C15", "early", format!("timer future of slot {} (deadline {}) completed at clock {}", i, s.deadline, now));
                        } else if !expect_ready {
                            out.v("C15", "completed-without-check", format!("registered timer future of slot {} (deadline {}) completed at clock {} although no check_expirations() observed clock >= deadline", i, s.deadline, now));
                        }
                    }
                    Ok(Poll::Pending) => {
                        out.o("Pending");
                        if expect_ready {
                            out.v("C15", "missed", format!("timer future of slot {} (deadline {}) returned Pending at clock {} ({})", i, s.deadline, now, if first { "first poll, deadline reached" } else { "a check_expirations() has observed clock >= deadline" }));
                        }
                        s.registered = true;
                    }
                }
            }
            Op::PollDone(i) => {
                let i = i as usize;
                let waker = harness::waker(wid(G, i, 0));
                let s = self.slots[i].as_mut().unwrap();
                let r = lib(|| s.fut.pin().poll(&mut Context::from_waker(&waker)));
                s.meta.repolled = true;
                match r {
                    Err(_) => out.o("panicked"),
                    Ok(p) => out.v("C17", "poll-after-completion", format!("polling the completed timer future of slot {} returned {:?} instead of panicking", i, p)),
                }
            }
            Op::DropFut(i) => {
                let mut s = self.slots[i as usize].take().unwrap();
                let range = s.fut.range();
                if let Err(p) = lib(|| s.fut.kill()) {
                    out.v("C01", "panic", format!("dropping the future of slot {} panicked: {}", i, p));
                    out.corrupt = true;
                }
                s.fut.release_memory_if_requested();
                self.dead.push(range);
                self.graveyard.push(s.fut);
            }
            Op::Advance(n) => {
                self.now += n as u64;
                clock().set_time(self.now);
            }
            Op::Check => {
                let log0 = harness::wakelog_len();
                if let Err(p) = lib(|| self.timer.check_expirations()) {
                    out.v("C01", "panic", format!("check_expirations() panicked: {}", p));
                    out.corrupt = true;
                }
                let log = harness::wakelog_since(log0);
                let now = self.now;
                // who had to be woken
                let mut due: Vec<usize> = vec![];
                for (i, s) in self.slots.iter_mut().enumerate() {
                    if let Some(s) = s {
                        if s.registered && !s.expired && !s.meta.done && s.deadline <= now {
                            s.expired = true;
                            due.push(i);
                        }
                    }
                }
                // all and only the due futures' latest wakers may have been invoked (a waker that is
                // invoked more than once is not a violation of C15)
                let mut allowed: Vec<u8> = due.iter().map(|&i| wid(G, i, self.slots[i].as_ref().unwrap().meta.last) as u8).collect();
                allowed.sort();
                allowed.dedup();
                let mut got = log.clone();
                got.sort();
                got.dedup();
                if got != allowed {
                    out.v("C15", "wake-set", format!("check_expirations() at clock {} invoked wakers {:?}; due registered futures are slots {:?} whose latest wakers are {:?}", now, log, due, allowed));
                }
                // wake order: non-decreasing deadline
                let dls: Vec<u64> = log
                    .iter()
                    .filter_map(|&w| {
                        let w = w as usize;
                        let slot = (w - 1) / 2 % 8;
                        self.slots.get(slot).and_then(|s| s.as_ref()).map(|s| s.deadline)
                    })
                    .collect();
                if dls.windows(2).any(|p| p[0] > p[1]) {
                    out.v("C15", "wake-order", format!("check_expirations() woke futures in deadline order {:?}", dls));
                }
            }
        }
        let wakes_after = harness::all_wakes();
        let woken: Vec<usize> = (0..harness::MAX_WAKERS).filter(|&w| wakes_after[w] > wakes_before[w]).collect();
        if !woken.is_empty() {
            out.o(&format!("woke{:?}", woken));
        }
        self.invariants(out);
    }

    fn fingerprint(&self) -> Vec<u8> {
        clock().set_time(self.now);
        let snap = self.timer.verif_snapshot();
        let mut v = vec![(self.now - self.clock0) as u8];
        let mut recs: Vec<Vec<u8>> = vec![];
        for i in 0..self.k {
            match &self.slots[i] {
                None => recs.push(vec![255]),
                Some(s) => {
                    let dl = if s.deadline == u64::MAX { 250 } else { (s.deadline - self.clock0) as u8 };
                    let mut r = vec![dl, s.meta.polled as u8, s.meta.done as u8, s.meta.repolled as u8, s.registered as u8, s.expired as u8];
                    if s.meta.pending() {
                        r.push(s.meta.last);
                        r.push(fresh(G, i, &s.meta) as u8);
                        r.push(stale_wake(G, i, &s.meta) as u8);
                    } else {
                        r.extend([9, 9, 9]);
                    }
                    let n = F::node(s.fut.get());
                    r.push(n.tag);
                    r.push(structcheck::waker_code(n.waker, G, i));
                    match snap.queues[0].iter().position(|q| q.addr == n.addr) {
                        Some(p) => {
                            r.push(p as u8);
                            r.push(snap.queues[0][p].depth as u8);
                        }
                        None => r.extend([200, 200]),
                    }
                    r.push(s.fut.get().is_terminated() as u8);
                    // (the deadline inside the node is an absolute number: keep the rendering relative)
                    let nd = F::node_debug(s.fut.get()).replace(&format!("expiry: {}", s.deadline), "expiry: D");
                    r.extend(harness::norm(&nd));
                    recs.push(r);
                }
            }
        }
        if self.symmetry {
            recs.sort();
        }
        for r in recs {
            v.extend(r);
            v.push(253);
        }
        v.extend(harness::norm(&self.timer.verif_debug()));
        v
    }

    fn finish(self, _out: &mut StepOut) {}
}


// ---------------------------------------------------------------------------------------------
// Value sweep for `delay(d)`: "delay(d) means deadline(now+d), saturating". The fixpoint systems
// use a handful of delays; here every whole-millisecond duration up to 20 s, the same with a
// sub-millisecond remainder, and the neighbourhood of every power of two up to and beyond 2^64 ms
// is converted by the real `delay()` on a fresh service and compared with the exact integer
// deadline; for each duration the future must not be woken one tick before the deadline and
// must be woken at it. One operation `Block(b)` sweeps one block of the domain.

#[derive(Clone, Copy, Debug, PartialEq)]
pub enum SweepOp {
    Block(u8),
}

pub struct Sweep<F: Flavor> {
    ran: Option<u8>,
    _f: std::marker::PhantomData<F>,
}

fn sweep_domain(block: u8) -> Vec<Duration> {
    let mut v = vec![];
    match block {
        0 => (0..=5000u64).for_each(|ms| v.push(Duration::from_millis(ms))),
        1 => (5001..=20000u64).for_each(|ms| v.push(Duration::from_millis(ms))),
        2 => (0..=20000u64).step_by(7).for_each(|ms| {
            v.push(Duration::new(ms / 1000, (ms % 1000) as u32 * 1_000_000 + 999_999));
            v.push(Duration::new(ms / 1000, (ms % 1000) as u32 * 1_000_000 + 1));
        }),
        _ => {
            for k in 0..=70u32 {
                let base: u128 = 1u128 << k;
                for ms in [base.saturating_sub(1), base, base + 1] {
                    let secs = ms / 1000;
                    if secs <= u64::MAX as u128 {
                        v.push(Duration::new(secs as u64, (ms % 1000) as u32 * 1_000_000));
                    }
                }
            }
            for ms in [u64::MAX as u128 - 1, u64::MAX as u128, u64::MAX as u128 + 1, 3 * (u64::MAX as u128)] {
                v.push(Duration::new((ms / 1000) as u64, (ms % 1000) as u32 * 1_000_000));
            }
            v.push(Duration::MAX);
        }
    }
    v
}

impl<F: Flavor> System for Sweep<F> {
    type Op = SweepOp;
    fn new(_cfg: &Cfg) -> Self {
        Sweep { ran: None, _f: std::marker::PhantomData }
    }
    fn enabled(&self) -> Vec<SweepOp> {
        if self.ran.is_some() {
            vec![]
        } else {
            (0..4).map(SweepOp::Block).collect()
        }
    }
    fn apply(&mut self, op: SweepOp, out: &mut StepOut) {
        let SweepOp::Block(b) = op;
        self.ran = Some(b);
        const WID: usize = 1;
        let waker = harness::waker(WID);
        let mut n = 0u32;
        for now in [0u64, 1000, u64::MAX - 10_000] {
            for dur in sweep_domain(b) {
                n += 1;
                if n % 512 == 0 {
                    crate::core::heartbeat();
                }
                clock().set_time(now);
                let timer: Box<GenericTimerService<F::M>> = Box::new(GenericTimerService::new(clock()));
                let t: &'static GenericTimerService<F::M> = unsafe { &*(&*timer as *const GenericTimerService<F::M>) };
                let ms = std::cmp::min(dur.as_millis(), u64::MAX as u128) as u64;
                let deadline = now.saturating_add(ms);
                let mut f = match lib(|| F::delay(t, dur)) {
                    Ok(f) => Box::pin(f),
                    Err(p) => {
                        out.v("C01", "panic", format!("delay({:?}) panicked: {}", dur, p));
                        return;
                    }
                };
                let r = match lib(|| f.as_mut().poll(&mut Context::from_waker(&waker))) {
                    Ok(r) => r,
                    Err(p) => {
                        out.v("C01", "panic", format!("first poll of delay({:?}) panicked: {}", dur, p));
                        std::mem::forget(f);
                        std::mem::forget(timer);
                        return;
                    }
                };
                let _ = harness::take_alloc_counts();
                if deadline <= now {
                    if r.is_pending() {
                        out.v("C15", "delay-value", format!("delay({:?}) at clock {} is due at once but its first poll is Pending", dur, now));
                        return;
                    }
                    continue;
                }
                if r.is_ready() {
                    out.v("C15", "delay-value", format!("delay({:?}) at clock {} completed at its first poll, {} ms early", dur, now, ms));
                    return;
                }
                let ne = t.next_expiration();
                if ne != Some(deadline) {
                    out.v("C15", "delay-value", format!("delay({:?}) at clock {}: next_expiration()={:?}, but delay(d) means deadline(now+d) = {}", dur, now, ne, deadline));
                    return;
                }
                let w0 = harness::wakes(WID);
                clock().set_time(deadline - 1);
                t.check_expirations();
                if harness::wakes(WID) != w0 || f.is_terminated() {
                    out.v("C15", "delay-value", format!("delay({:?}) at clock {}: woken at clock {}, one tick before its deadline {}", dur, now, deadline - 1, deadline));
                    return;
                }
                clock().set_time(deadline);
                t.check_expirations();
                if harness::wakes(WID) == w0 {
                    out.v("C15", "delay-value", format!("delay({:?}) at clock {}: not woken by check_expirations() at its deadline {}", dur, now, deadline));
                    return;
                }
                if f.as_mut().poll(&mut Context::from_waker(&waker)).is_pending() {
                    out.v("C15", "delay-value", format!("delay({:?}) at clock {}: still pending at its deadline {}", dur, now, deadline));
                    return;
                }
                drop(f);
                drop(timer);
            }
        }
        let _ = harness::take_alloc_counts();
        out.o(&format!("block {} ok ({} durations x clocks)", b, n));
    }
    fn fingerprint(&self) -> Vec<u8> {
        vec![self.ran.map_or(255, |b| b)]
    }
    fn finish(self, _out: &mut StepOut) {}
}
