//! E-SEQ system: ManualResetEvent (local / parking_lot).
//! Monitors: C01, C14, C17, C18.

use crate::core::{Cfg, StepOut, System};
use crate::harness::{self, fresh, lib, sample_seen, stale_wake, wid, Meta, Pinned};
use crate::structcheck::{self, LiveNode};
use futures_core::future::FusedFuture;
use futures_intrusive::sync::{GenericManualResetEvent, GenericWaitForEventFuture};
use lock_api::RawMutex;
use std::future::Future;
use std::task::{Context, Poll};

#[derive(Clone, Copy, Debug, PartialEq)]
pub enum Op {
    Create(u8),
    Poll(u8, u8),
    PollDone(u8),
    DropFut(u8),
    Set,
    Reset,
}

struct Slot<M: RawMutex + 'static> {
    fut: Pinned<GenericWaitForEventFuture<'static, M>>,
    meta: Meta,
    /// set() was called after the first Pending poll of this waiter
    latched: bool,
}

pub struct Sys<M: RawMutex + 'static> {
    slots: Vec<Option<Slot<M>>>,
    graveyard: Vec<Pinned<GenericWaitForEventFuture<'static, M>>>,
    dead: Vec<(usize, usize)>,
    event: Box<GenericManualResetEvent<M>>,
    k: usize,
    is_set: bool,
    symmetry: bool,
}

const G: usize = 0;

impl<M: RawMutex + 'static> Sys<M> {
    fn eref(&self) -> &'static GenericManualResetEvent<M> {
        unsafe { &*(&*self.event as *const GenericManualResetEvent<M>) }
    }
    fn live_nodes(&self) -> Vec<LiveNode> {
        let mut v = vec![];
        for (i, s) in self.slots.iter().enumerate() {
            if let Some(s) = s {
                if s.fut.is_alive() {
                    let node = s.fut.get().verif_node();
                    v.push(LiveNode::new(G, i, node, &s.meta));
                }
            }
        }
        v
    }
    fn invariants(&mut self, out: &mut StepOut) {
        let (na, nf) = harness::take_alloc_counts();
        if na + nf > 0 {
            out.p("C18", "alloc-in-call", format!("{} allocations / {} frees inside library calls of this step", na, nf));
        }
        let snap = self.event.verif_snapshot();
        let live = self.live_nodes();
        structcheck::check_errors(&snap.errors, out);
        structcheck::check_queue("waiters", &snap.queues[0], &live, &self.dead, out);
        structcheck::check_membership(&[&snap.queues[0]], &live, out);
        for (i, s) in self.slots.iter().enumerate() {
            if let Some(s) = s {
                if s.fut.get().is_terminated() != s.meta.done {
                    out.p("C17", "is-terminated", format!("slot {}: is_terminated()={} but completed={}", i, s.fut.get().is_terminated(), s.meta.done));
                }
                if s.meta.pending() && s.latched && !fresh(G, i, &s.meta) {
                    out.p("C14", "set-did-not-wake", format!("slot {}: set() was called while this waiter was pending but it has not been woken through the waker of its latest poll", i));
                }
            }
        }
        let r = self.event.is_set();
        if r != self.is_set {
            out.v("C14", "is-set", format!("is_set()={} but the last set/reset call says {}", r, self.is_set));
        }
    }
}

impl<M: RawMutex + 'static> System for Sys<M> {
    type Op = Op;

    fn new(cfg: &Cfg) -> Self {
        let k = cfg.get("k") as usize;
        let init = cfg.flag("set");
        Sys {
            slots: (0..k).map(|_| None).collect(),
            graveyard: vec![],
            dead: vec![],
            event: Box::new(GenericManualResetEvent::new(init)),
            k,
            is_set: init,
            symmetry: cfg.get_or("symmetry", 1) != 0,
        }
    }

    fn enabled(&self) -> Vec<Op> {
        let mut v = vec![];
        let mut created = false;
        for i in 0..self.k {
            match &self.slots[i] {
                None => {
                    if !(self.symmetry && created) {
                        v.push(Op::Create(i as u8));
                        created = true;
                    }
                }
                Some(s) => {
                    if !s.meta.done {
                        v.push(Op::Poll(i as u8, 0));
                        v.push(Op::Poll(i as u8, 1));
                    } else if !s.meta.repolled {
                        v.push(Op::PollDone(i as u8));
                    }
                    v.push(Op::DropFut(i as u8));
                }
            }
        }
        v.push(Op::Set);
        v.push(Op::Reset);
        v
    }

    fn apply(&mut self, op: Op, out: &mut StepOut) {
        let wakes_before = harness::all_wakes();
        match op {
            Op::Create(i) => {
                let i = i as usize;
                let e = self.eref();
                match lib(|| e.wait()) {
                    Ok(f) => {
                        let mut meta = Meta::default();
                        meta.seen = sample_seen(G, i);
                        self.slots[i] = Some(Slot { fut: Pinned::new(f), meta, latched: false });
                    }
                    Err(p) => out.v("C01", "panic", format!("wait() panicked: {}", p)),
                }
            }
            Op::Poll(i, w) => {
                let i = i as usize;
                let seen = sample_seen(G, i);
                let waker = harness::waker(wid(G, i, w));
                let is_set = self.is_set;
                let s = self.slots[i].as_mut().unwrap();
                let expected_ready = is_set || s.latched;
                let r = lib(|| s.fut.pin().poll(&mut Context::from_waker(&waker)));
                s.meta.polled = true;
                s.meta.last = w;
                s.meta.seen = seen;
                match r {
                    Err(p) => {
                        out.v("C01", "panic", format!("poll of slot {} panicked: {}", i, p));
                        out.corrupt = true;
                        s.meta.done = true;
                    }
                    Ok(Poll::Ready(())) => {
                        out.o("Ready");
                        s.meta.done = true;
                        if !expected_ready {
                            out.v("C14", "completed-without-set", format!("wait future of slot {} completed although the event is not set and was not set since its first poll", i));
                        }
                    }
                    Ok(Poll::Pending) => {
                        out.o("Pending");
                        if expected_ready {
                            out.v("C14", "missed-set", format!("wait future of slot {} returned Pending although the event {}", i, if is_set { "is set" } else { "was set while it waited" }));
                        }
                    }
                }
            }
            Op::PollDone(i) => {
                let i = i as usize;
                let waker = harness::waker(wid(G, i, 0));
                let s = self.slots[i].as_mut().unwrap();
                let r = lib(|| s.fut.pin().poll(&mut Context::from_waker(&waker)));
                s.meta.repolled = true;
                match r {
                    Err(_) => out.o("panicked"),
                    Ok(p) => out.v("C17", "poll-after-completion", format!("polling the completed wait future of slot {} returned {:?} instead of panicking", i, p)),
                }
            }
            Op::DropFut(i) => {
                let mut s = self.slots[i as usize].take().unwrap();
                let range = s.fut.range();
                if let Err(p) = lib(|| s.fut.kill()) {
                    out.v("C01", "panic", format!("dropping the future of slot {} panicked: {}", i, p));
                    out.corrupt = true;
                }
                s.fut.release_memory_if_requested();
                self.dead.push(range);
                self.graveyard.push(s.fut);
            }
            Op::Set => {
                if let Err(p) = lib(|| self.event.set()) {
                    out.v("C01", "panic", format!("set() panicked: {}", p));
                }
                self.is_set = true;
                for s in self.slots.iter_mut().flatten() {
                    if s.meta.pending() {
                        s.latched = true;
                    }
                }
            }
            Op::Reset => {
                if let Err(p) = lib(|| self.event.reset()) {
                    out.v("C01", "panic", format!("reset() panicked: {}", p));
                }
                self.is_set = false;
                if harness::all_wakes() != wakes_before {
                    out.v("C14", "reset-woke", "reset() invoked a waker".to_string());
                }
            }
        }
        let wakes_after = harness::all_wakes();
        let woken: Vec<usize> = (0..harness::MAX_WAKERS).filter(|&w| wakes_after[w] > wakes_before[w]).collect();
        if !woken.is_empty() {
            out.o(&format!("woke{:?}", woken));
        }
        self.invariants(out);
    }

    fn fingerprint(&self) -> Vec<u8> {
        let snap = self.event.verif_snapshot();
        let mut v = vec![snap.scalars[0] as u8, self.is_set as u8];
        let mut recs: Vec<Vec<u8>> = vec![];
        for i in 0..self.k {
            match &self.slots[i] {
                None => recs.push(vec![255]),
                Some(s) => {
                    let mut r = vec![s.meta.polled as u8, s.meta.done as u8, s.meta.repolled as u8, s.latched as u8];
                    if s.meta.pending() {
                        r.push(s.meta.last);
                        r.push(fresh(G, i, &s.meta) as u8);
                        r.push(stale_wake(G, i, &s.meta) as u8);
                    } else {
                        r.extend([9, 9, 9]);
                    }
                    let n = s.fut.get().verif_node();
                    r.push(n.tag);
                    r.push(structcheck::waker_code(n.waker, G, i));
                    r.push(snap.queues[0].iter().position(|q| q.addr == n.addr).map_or(200, |p| p as u8));
                    r.push(s.fut.get().is_terminated() as u8);
                    r.extend(harness::norm(&s.fut.get().verif_node_debug()));
                    recs.push(r);
                }
            }
        }
        if self.symmetry {
            recs.sort();
        }
        for r in recs {
            v.extend(r);
            v.push(253);
        }
        v.extend(harness::norm(&self.event.verif_debug()));
        v
    }

    fn finish(self, _out: &mut StepOut) {}
}
