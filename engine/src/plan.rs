//! Which systems / configurations serve which property, per tier.

use crate::core::Cfg;

pub struct Job {
    pub cfg: Cfg,
    pub max_states: usize,
    pub wall_cap_s: f64,
    pub finish: bool,
}

fn job(cfg: Cfg, finish: bool, thorough: bool) -> Job {
    // the parking_lot flavours are explored with the alternative waker shape (the two wakers of a
    // slot share the data pointer and differ in the vtable), the local flavours with the default
    // one (same vtable, different data pointers): see harness::waker
    let n = cfg.system;
    let alt = n.ends_with(".std") && !n.contains("sweep") || n.starts_with("mpmc.arrS") || n == "mpmc.fixS";
    let cfg = if alt { cfg.with("altw", 1) } else { cfg };
    Job { cfg, max_states: if thorough { 6_000_000 } else { 1_500_000 }, wall_cap_s: if thorough { 1500.0 } else { 40.0 }, finish }
}

fn bits(v: &[u8]) -> i64 {
    v.iter().map(|b| 1i64 << b).sum()
}

pub fn sem_jobs(thorough: bool, finish: bool) -> Vec<Job> {
    let mut v = vec![];
    let flavours = ["sem.local", "sem.std", "sem.shared"];
    for (fi, fl) in flavours.iter().enumerate() {
        for fair in [1, 0] {
            if thorough {
                v.push(job(Cfg::new(fl, &[("fair", fair), ("permits", 0), ("k", 3), ("sizes", bits(&[0, 1, 2, 3])), ("cap", 4), ("rels", 1)]), finish, true));
                if fi == 0 {
                    v.push(job(Cfg::new(fl, &[("fair", fair), ("permits", 1), ("k", 4), ("sizes", bits(&[1, 2])), ("cap", 3), ("rels", 1)]), finish, true));
                    v.push(job(Cfg::new(fl, &[("fair", fair), ("permits", 2), ("k", 3), ("sizes", bits(&[1, 2, 3])), ("cap", 5), ("rels", 2)]), finish, true));
                    v.push(job(Cfg::new(fl, &[("fair", fair), ("permits", 0), ("k", 4), ("sizes", bits(&[1, 2, 3])), ("cap", 5), ("rels", 1)]), finish, true));
                    v.push(job(Cfg::new(fl, &[("fair", fair), ("permits", 0), ("k", 4), ("sizes", bits(&[0, 1, 2])), ("cap", 4), ("rels", 1)]), finish, true));
                }
            } else if fi == 0 {
                v.push(job(Cfg::new(fl, &[("fair", fair), ("permits", 0), ("k", 3), ("sizes", bits(&[0, 1, 2])), ("cap", 3), ("rels", 1)]), finish, false));
                v.push(job(Cfg::new(fl, &[("fair", fair), ("permits", 1), ("k", 3), ("sizes", bits(&[1, 3])), ("cap", 4), ("rels", 1)]), finish, false));
            } else {
                v.push(job(Cfg::new(fl, &[("fair", fair), ("permits", 0), ("k", 3), ("sizes", bits(&[1, 2])), ("cap", 3), ("rels", 1)]), finish, false));
            }
            if fi == 0 {
                // releasers dropped by the unwinder (their holder panics)
                v.push(job(Cfg::new(fl, &[("fair", fair), ("permits", 1), ("k", 2), ("sizes", bits(&[1, 2])), ("cap", 3), ("rels", 2), ("unwind", 1)]), finish, thorough));
                // the largest possible request (letter 6 = usize::MAX permits) next to small ones
                v.push(job(Cfg::new(fl, &[("fair", fair), ("permits", 0), ("k", 3), ("sizes", bits(&[1, 6])), ("cap", 2), ("rels", 1)]), finish, thorough));
                // a request that does not fit into 32 bits (letter 7 = 2^32 + 2 permits) next to small ones
                v.push(job(Cfg::new(fl, &[("fair", fair), ("permits", 3), ("k", 2), ("sizes", bits(&[2, 7])), ("cap", 5), ("rels", 1)]), finish, thorough));
            }
            if fi == 2 {
                // the user's last handle can be dropped while futures and releasers live on
                let k = if thorough { 3 } else { 2 };
                v.push(job(Cfg::new(fl, &[("fair", fair), ("permits", 1), ("k", k), ("sizes", bits(&[1, 2])), ("cap", 3), ("rels", if thorough { 2 } else { 1 }), ("handle", 1)]), finish, thorough));
            }
        }
    }
    v
}

pub fn mutex_jobs(thorough: bool, finish: bool) -> Vec<Job> {
    let mut v = vec![];
    for fl in ["mutex.local", "mutex.std"] {
        for fair in [1, 0] {
            v.push(job(Cfg::new(fl, &[("fair", fair), ("k", if thorough { 5 } else { 4 })]), finish, thorough));
        }
    }
    // guards dropped by the unwinder (their holder panics)
    for fair in [1, 0] {
        v.push(job(Cfg::new("mutex.local", &[("fair", fair), ("k", 3), ("unwind", 1)]), finish, thorough));
    }
    if thorough {
        v.push(job(Cfg::new("mutex.local", &[("fair", 1), ("k", 7)]), finish, true));
        v.push(job(Cfg::new("mutex.local", &[("fair", 0), ("k", 7)]), finish, true));
        v.push(job(Cfg::new("mutex.local", &[("fair", 0), ("k", 3), ("symmetry", 0)]), finish, true));
        v.push(job(Cfg::new("mutex.local", &[("fair", 1), ("k", 3), ("symmetry", 0)]), finish, true));
    }
    v
}

pub fn event_jobs(thorough: bool) -> Vec<Job> {
    let mut v = vec![];
    for fl in ["event.local", "event.std"] {
        for set in [0, 1] {
            v.push(job(Cfg::new(fl, &[("set", set), ("k", if thorough { 5 } else { 4 })]), false, thorough));
        }
    }
    if thorough {
        v.push(job(Cfg::new("event.local", &[("set", 0), ("k", 8)]), false, true));
        v.push(job(Cfg::new("event.local", &[("set", 0), ("k", 3), ("symmetry", 0)]), false, true));
    }
    v
}

pub fn oneshot_jobs(thorough: bool) -> Vec<Job> {
    let mut v = vec![];
    for fl in ["oneshot.local", "oneshot.std", "oneshot.shared", "bcast.local", "bcast.std", "bcast.shared"] {
        v.push(job(Cfg::new(fl, &[("k", if thorough { 5 } else { 4 }), ("sends", 2), ("handles", 3)]), false, thorough));
    }
    v
}

pub fn state_jobs(thorough: bool) -> Vec<Job> {
    let mut v = vec![];
    for fl in ["state.local", "state.std", "state.shared"] {
        let k = if thorough { 3 } else { 2 };
        v.push(job(Cfg::new(fl, &[("k", k), ("sends", if thorough { 4 } else { 3 }), ("handles", if thorough { 3 } else { 2 })]), false, thorough));
    }
    // requests with an id that is AHEAD of the channel (taken from another channel that has seen
    // more updates): must never complete with a state
    for fl in ["state.local", "state.shared"] {
        v.push(job(Cfg::new(fl, &[("k", 2), ("sends", if thorough { 3 } else { 2 }), ("handles", 2), ("foreign", 1)]), false, thorough));
    }
    if !thorough {
        v.push(job(Cfg::new("state.local", &[("k", 3), ("sends", 2), ("handles", 2)]), false, false));
    } else {
        v.push(job(Cfg::new("state.local", &[("k", 4), ("sends", 3), ("handles", 1)]), false, true));
    }
    v
}

pub fn timer_jobs(thorough: bool) -> Vec<Job> {
    let mut v = vec![];
    let k = if thorough { 4 } else { 3 };
    // deadlines clock0+{1,2,3}; delays {0 ms, 1 ms, Duration::MAX}
    v.push(job(Cfg::new("timer.local", &[("k", k), ("clock0", 0), ("deadlines", 0b1110), ("delays", 0b11_0000_0011), ("span", 4)]), false, thorough));
    v.push(job(Cfg::new("timer.std", &[("k", k), ("clock0", 0), ("deadlines", 0b1110), ("delays", 0b10_0000_0010), ("span", 3)]), false, thorough));
    v.push(job(Cfg::new("timer.local", &[("k", 3), ("clock0", 5), ("deadlines", 0b0110), ("delays", 0b10_0000_0011), ("span", 3)]), false, thorough));
    if thorough {
        v.push(job(Cfg::new("timer.local", &[("k", 5), ("clock0", 0), ("deadlines", 0b0110), ("delays", 0b10), ("span", 3)]), false, true));
        // heap shapes with 5 / 6 simultaneously registered timers over three deadlines
        v.push(job(Cfg::new("timer.local", &[("k", 5), ("clock0", 0), ("deadlines", 0b1110), ("delays", 0), ("span", 2)]), false, true));
        v.push(job(Cfg::new("timer.local", &[("k", 6), ("clock0", 0), ("deadlines", 0b1110), ("delays", 0), ("span", 0)]), false, true));
    } else {
        // registration / cancellation only (the clock stands still): every heap shape that 5
        // simultaneously registered timers over three deadlines, duplicates included, can reach
        v.push(job(Cfg::new("timer.local", &[("k", 5), ("clock0", 0), ("deadlines", 0b1110), ("delays", 0), ("span", 0)]), false, false));
    }
    v
}

pub fn mpmc_jobs(thorough: bool, finish: bool) -> Vec<Job> {
    let mut v = vec![];
    let vals = if thorough { 4 } else { 3 };
    for cap in 0..=2i64 {
        let name: &'static str = ["mpmc.arrL0", "mpmc.arrL1", "mpmc.arrL2"][cap as usize];
        v.push(job(Cfg::new(name, &[("cap", cap), ("ks", 2), ("kr", 2), ("values", vals), ("stream", 0)]), finish, thorough));
        if thorough {
            v.push(job(Cfg::new(name, &[("cap", cap), ("ks", 3), ("kr", 2), ("values", 4), ("stream", 0)]), finish, true));
            v.push(job(Cfg::new(name, &[("cap", cap), ("ks", 2), ("kr", 1), ("values", 4), ("stream", 1)]), finish, true));
        }
    }
    v.push(job(Cfg::new("mpmc.arrL1", &[("cap", 1), ("ks", 2), ("kr", 1), ("values", 3), ("stream", 1)]), finish, thorough));
    v.push(job(Cfg::new("mpmc.arrL0", &[("cap", 0), ("ks", 1), ("kr", 1), ("values", 3), ("stream", 1)]), finish, thorough));
    for cap in 0..=2i64 {
        let name: &'static str = ["mpmc.arrS0", "mpmc.arrS1", "mpmc.arrS2"][cap as usize];
        if thorough || cap == 1 {
            v.push(job(Cfg::new(name, &[("cap", cap), ("ks", 2), ("kr", 2), ("values", 3), ("stream", 0)]), finish, thorough));
        }
    }
    v.push(job(Cfg::new("mpmc.fixS", &[("cap", 2), ("ks", 2), ("kr", 1), ("values", 3), ("stream", 0)]), finish, thorough));
    for cap in 0..=(if thorough { 2i64 } else { 1 }) {
        v.push(job(Cfg::new("mpmc.shGrow", &[("cap", cap), ("ks", 1), ("kr", 1), ("values", 2), ("stream", 1), ("handles", 2)]), finish, thorough));
    }
    v.push(job(Cfg::new("mpmc.shFix", &[("cap", 1), ("ks", 2), ("kr", 1), ("values", 3), ("stream", 0), ("handles", 2)]), finish, thorough));
    v.push(job(Cfg::new("mpmc.shFix", &[("cap", 2), ("ks", 1), ("kr", 0), ("values", 3), ("stream", 1), ("handles", 1)]), finish, thorough));
    v.push(job(Cfg::new("mpmc.arrL3", &[("cap", 3), ("ks", 2), ("kr", 1), ("values", 4), ("stream", 0)]), finish, thorough));
    // more values than futures + slots, so that a later try_send can overtake a sender that a stale
    // piece of bookkeeping left parked (both tiers: the 3-value configurations of the quick tier end
    // before the overtaking value exists)
    v.push(job(Cfg::new("mpmc.arrL1", &[("cap", 1), ("ks", 2), ("kr", 1), ("values", 4), ("stream", 0)]), finish, thorough));
    v.push(job(Cfg::new("mpmc.arrL0", &[("cap", 0), ("ks", 2), ("kr", 1), ("values", 4), ("stream", 0)]), finish, thorough));
    v.push(job(Cfg::new("mpmc.arrL3", &[("cap", 3), ("ks", 2), ("kr", 0), ("values", 6), ("stream", 0)]), finish, thorough));
    if thorough {
        v.push(job(Cfg::new("mpmc.arrL1", &[("cap", 1), ("ks", 3), ("kr", 3), ("values", 4), ("stream", 0)]), finish, true));
        v.push(job(Cfg::new("mpmc.arrL0", &[("cap", 0), ("ks", 3), ("kr", 3), ("values", 4), ("stream", 0)]), finish, true));
        v.push(job(Cfg::new("mpmc.arrL3", &[("cap", 3), ("ks", 2), ("kr", 2), ("values", 5), ("stream", 0)]), finish, true));
        v.push(job(Cfg::new("mpmc.shGrow", &[("cap", 1), ("ks", 2), ("kr", 2), ("values", 3), ("stream", 0), ("handles", 3)]), finish, true));
        v.push(job(Cfg::new("mpmc.arrL1", &[("cap", 1), ("ks", 2), ("kr", 2), ("values", 3), ("stream", 0), ("symmetry", 0)]), finish, true));
    }
    v
}

pub fn ring_jobs(thorough: bool) -> Vec<Job> {
    let mut v = vec![];
    let len = if thorough { 16 } else { 12 };
    for cap in 0..=4i64 {
        let name: &'static str = ["ring.arr0", "ring.arr1", "ring.arr2", "ring.arr3", "ring.arr4"][cap as usize];
        v.push(job(Cfg::new(name, &[("cap", cap), ("len", len)]), true, thorough));
        v.push(job(Cfg::new("ring.fix", &[("cap", cap), ("len", len)]), true, thorough));
        v.push(job(Cfg::new("ring.grow", &[("cap", cap), ("len", len)]), true, thorough));
    }
    // user-defined RealArray types whose size is not LEN * size_of::<T>() (alignment attribute, trailing field)
    v.push(job(Cfg::new("ring.arrAl3", &[("cap", 3), ("len", len)]), true, thorough));
    v.push(job(Cfg::new("ring.arrPad2", &[("cap", 2), ("len", len)]), true, thorough));
    // zero-sized elements with a Drop impl
    let zlen = if thorough { 12 } else { 10 };
    for cap in 0..=3i64 {
        let name: &'static str = ["ringz.arr0", "ringz.arr1", "ringz.arr2", "ringz.arr3"][cap as usize];
        v.push(job(Cfg::new(name, &[("cap", cap), ("len", zlen)]), true, thorough));
        v.push(job(Cfg::new("ringz.fix", &[("cap", cap), ("len", zlen)]), true, thorough));
        v.push(job(Cfg::new("ringz.grow", &[("cap", cap), ("len", zlen)]), true, thorough));
    }
    // long scripted fill / drain cycles for large and unusual capacities
    v.push(job(Cfg::new("ringscript.arr63", &[("cap", 63)]), false, thorough));
    v.push(job(Cfg::new("ringscript.arr64", &[("cap", 64)]), false, thorough));
    v.push(job(Cfg::new("ringscript.arr96", &[("cap", 96)]), false, thorough));
    v.push(job(Cfg::new("ringscript.arr128", &[("cap", 128)]), false, thorough));
    v.push(job(Cfg::new("ringscript.arr65536", &[("cap", 65536)]), false, thorough));
    v.push(job(Cfg::new("ringscript.fix", &[("cap", 70)]), false, thorough));
    v.push(job(Cfg::new("ringscript.grow", &[("cap", 70)]), false, thorough));
    v
}

pub fn ds_jobs(thorough: bool) -> Vec<Job> {
    let mut v = vec![];
    // 1 000 and 65 538 nodes: ascending / descending / equal / zig-zag keys, remove-min to empty
    v.push(job(Cfg::new("ds.heapscript", &[("x", 0)]), false, thorough));
    v.push(job(Cfg::new("ds.list", &[("n", if thorough { 7 } else { 5 })]), false, thorough));
    v.push(job(Cfg::new("ds.heap", &[("n", if thorough { 6 } else { 5 }), ("key_values", 3)]), false, thorough));
    if !thorough {
        v.push(job(Cfg::new("ds.heap", &[("n", 6), ("fixed_keys", 543210)]), false, false));
        v.push(job(Cfg::new("ds.heap", &[("n", 6), ("fixed_keys", 0)]), false, false));
    } else {
        // 7 nodes: distinct keys, all equal, pairs, descending
        for fk in [6543210i64, 0, 3221100, 123456] {
            v.push(job(Cfg::new("ds.heap", &[("n", 7), ("fixed_keys", fk)]), false, true));
        }
        v.push(job(Cfg::new("ds.heap", &[("n", 4), ("key_values", 4)]), false, true));
    }
    v
}

/// N = 0..n parked futures, one mass wake-up, poll all (sys_burst.rs); `kinds` selects the primitives
pub fn burst_jobs(thorough: bool, kinds: &[i64]) -> Vec<Job> {
    let mut v = vec![];
    let n = if thorough { 64 } else { 40 };
    for &k in kinds {
        if k == 1 || k == 8 {
            v.push(job(Cfg::new("burst", &[("kind", k), ("fair", 1), ("n", n)]), false, thorough));
            v.push(job(Cfg::new("burst", &[("kind", k), ("fair", 0), ("n", n)]), false, thorough));
        } else {
            v.push(job(Cfg::new("burst", &[("kind", k), ("n", n)]), false, thorough));
        }
    }
    v.extend(script_jobs(thorough, kinds, false));
    // chain mode of the mpmc kinds belongs to C10 (see `plan`)
    let chain: Vec<i64> = kinds.iter().copied().filter(|k| [1, 7, 8].contains(k)).collect();
    v.extend(script_jobs(thorough, &chain, true));
    v
}

/// one scripted channel life cycle per capacity in {0..5, 8, 16, 17, 64, 65, 100} (sys_capscript.rs)
pub fn capscript_jobs(thorough: bool) -> Vec<Job> {
    vec![
        job(Cfg::new("mpmc.capscript.fix", &[("x", 0)]), false, thorough),
        job(Cfg::new("mpmc.capscript.grow", &[("x", 0)]), false, thorough),
    ]
}

/// scripted bursts with N around 2^8 and 2^16 (sys_burst.rs, `Script`)
pub fn script_jobs(thorough: bool, kinds: &[i64], chain: bool) -> Vec<Job> {
    let mut v = vec![];
    for &k in kinds {
        let fairs: &[i64] = if k == 1 || k == 8 { &[1, 0] } else { &[0] };
        for &fair in fairs {
            v.push(job(Cfg::new("burstscript", &[("kind", k), ("fair", fair), ("chain", chain as i64)]), false, thorough));
        }
    }
    v
}

/// many simultaneous waiters, small alphabet: thresholds that only show with
/// "any number of concurrent waiters" (e.g. an allocation when more than N
/// waiters are woken at once)
pub fn wide_jobs(thorough: bool) -> Vec<Job> {
    let mut v = vec![];
    let k = if thorough { 7 } else { 6 };
    v.push(job(Cfg::new("event.local", &[("set", 0), ("k", k)]), false, thorough));
    v.push(job(Cfg::new("mutex.local", &[("fair", 1), ("k", k)]), false, thorough));
    v.push(job(Cfg::new("mutex.std", &[("fair", 0), ("k", k - 1)]), false, thorough));
    v.push(job(Cfg::new("sem.local", &[("fair", 1), ("permits", 0), ("k", k - 1), ("sizes", 0b10), ("cap", 2), ("rels", 0)]), false, thorough));
    v.push(job(Cfg::new("sem.shared", &[("fair", 0), ("permits", 0), ("k", k - 1), ("sizes", 0b10), ("cap", 2), ("rels", 0)]), false, thorough));
    v.push(job(Cfg::new("oneshot.local", &[("k", k), ("sends", 1), ("handles", 1)]), false, thorough));
    v.push(job(Cfg::new("bcast.shared", &[("k", k), ("sends", 1), ("handles", 1)]), false, thorough));
    v.push(job(Cfg::new("state.local", &[("k", k - 1), ("sends", 1), ("handles", 1)]), false, thorough));
    v.push(job(Cfg::new("timer.local", &[("k", k - 1), ("clock0", 0), ("deadlines", 0b0110), ("delays", 0), ("span", 2)]), false, thorough));
    // mpmc: many parked receivers / many parked senders, then close / send / receive
    v.push(job(Cfg::new("mpmc.arrL1", &[("cap", 1), ("ks", 0), ("kr", k), ("values", 1), ("stream", 0)]), false, thorough));
    v.push(job(Cfg::new("mpmc.arrL0", &[("cap", 0), ("ks", k - 1), ("kr", 0), ("values", (k - 1) as i64), ("stream", 0)]), false, thorough));
    if thorough {
        v.push(job(Cfg::new("mpmc.shFix", &[("cap", 1), ("ks", 5), ("kr", 0), ("values", 6), ("stream", 0), ("handles", 1)]), false, thorough));
        v.push(job(Cfg::new("mpmc.arrL0", &[("cap", 0), ("ks", 5), ("kr", 1), ("values", 5), ("stream", 0)]), false, thorough));
    }
    v
}

/// small configurations of every primitive for the memory-safety pass
/// (valgrind, dropped futures really freed)
pub fn valgrind_jobs(big: bool) -> Vec<Job> {
    let mut v = vec![];
    for fair in [1, 0] {
        v.push(job(Cfg::new("mutex.std", &[("fair", fair), ("k", if big { 3 } else { 2 })]), false, true));
        if big {
            v.push(job(Cfg::new("sem.std", &[("fair", fair), ("permits", 0), ("k", 2), ("sizes", 0b110), ("cap", 2), ("rels", 1)]), false, true));
        }
    }
    v.push(job(Cfg::new("event.std", &[("set", 0), ("k", if big { 3 } else { 2 })]), false, true));
    v.push(job(Cfg::new("oneshot.std", &[("k", 2), ("sends", 2), ("handles", 2)]), false, true));
    v.push(job(Cfg::new("bcast.shared", &[("k", 2), ("sends", 1), ("handles", 2)]), false, true));
    v.push(job(Cfg::new("timer.std", &[("k", 2), ("clock0", 0), ("deadlines", 0b0110), ("delays", 0b10), ("span", 2)]), false, true));
    if big {
        v.push(job(Cfg::new("sem.shared", &[("fair", 1), ("permits", 1), ("k", 2), ("sizes", 0b010), ("cap", 2), ("rels", 1)]), false, true));
        v.push(job(Cfg::new("state.shared", &[("k", 2), ("sends", 1), ("handles", 2)]), false, true));
        v.push(job(Cfg::new("mpmc.arrS1", &[("cap", 1), ("ks", 1), ("kr", 1), ("values", 2), ("stream", 0)]), false, true));
        v.push(job(Cfg::new("mpmc.arrS0", &[("cap", 0), ("ks", 1), ("kr", 1), ("values", 2), ("stream", 0)]), false, true));
        v.push(job(Cfg::new("mpmc.shGrow", &[("cap", 1), ("ks", 1), ("kr", 1), ("values", 2), ("stream", 0), ("handles", 1)]), false, true));
    } else {
        v.push(job(Cfg::new("mpmc.arrS1", &[("cap", 1), ("ks", 1), ("kr", 1), ("values", 1), ("stream", 0)]), false, true));
    }
    v
}

/// reduced-bound E-DS configurations for Miri
pub fn miri_jobs(prop: &str) -> Vec<Job> {
    let mut v = vec![];
    if prop == "C19" {
        for cap in [0i64, 2, 3] {
            let name: &'static str = ["ring.arr0", "ring.arr1", "ring.arr2", "ring.arr3"][cap as usize];
            v.push(job(Cfg::new(name, &[("cap", cap), ("len", 7)]), true, true));
        }
        v.push(job(Cfg::new("ring.fix", &[("cap", 2), ("len", 5)]), true, true));
        v.push(job(Cfg::new("ring.grow", &[("cap", 2), ("len", 5)]), true, true));
    } else {
        // Miri executes ~4 transitions/s of this harness: keep it to a few hundred transitions
        v.push(job(Cfg::new("ds.list", &[("n", 4)]), false, true));
        v.push(job(Cfg::new("ds.heap", &[("n", 4), ("fixed_keys", 1001)]), false, true));
        v.push(job(Cfg::new("ds.heap", &[("n", 5), ("fixed_keys", 10201)]), false, true));
    }
    v
}

/// every sequence of up to four polls with three distinct wakers, then the serving operation
pub fn wakerseq_job(thorough: bool) -> Job {
    job(Cfg::new("wakerseq", &[("x", 0)]), false, thorough)
}
/// long histories (set/reset resp. release/acquire cycles around 2^8 and 2^16) between two polls of one future
pub fn cycles_job(thorough: bool) -> Job {
    job(Cfg::new("cycles", &[("x", 0)]), false, thorough)
}

pub fn all_jobs(thorough: bool) -> Vec<Job> {
    let mut v = vec![];
    v.push(wakerseq_job(thorough));
    // a waker whose clone() panics: the unwound poll must not cost the future its way to unlink itself
    v.push(job(Cfg::new("panicwaker", &[("x", 0)]), false, thorough));
    v.extend(burst_jobs(thorough, &[0, 1, 2, 3, 4, 5, 6, 7, 8, 9]));
    v.extend(wide_jobs(thorough));
    v.extend(mutex_jobs(thorough, false));
    v.extend(sem_jobs(thorough, false));
    v.extend(event_jobs(thorough));
    v.extend(oneshot_jobs(thorough));
    v.extend(state_jobs(thorough));
    v.extend(timer_jobs(thorough));
    v.extend(mpmc_jobs(thorough, false));
    v
}

pub fn plan(prop: &str, tier: &str) -> Vec<Job> {
    let t = tier == "thorough";
    if tier == "valgrind" || tier == "valgrind-big" {
        return valgrind_jobs(tier == "valgrind-big");
    }
    if tier == "miri" {
        return miri_jobs(prop);
    }
    match prop {
        "C01" | "C17" => all_jobs(t),
        "C18" => {
            let mut v = all_jobs(t);
            // payloads of 1 byte .. 64 KiB in FixedHeapBuf-backed channels of more than 2 MiB in total
            v.push(job(Cfg::new("mpmc.bigpayload", &[("x", 0)]), false, t));
            v
        }
        "C19" => ring_jobs(t),
        "C20" => ds_jobs(t),
        "C11" => {
            let mut v = mpmc_jobs(t, false);
            v.extend(capscript_jobs(t));
            // Clone::clone_from on shared handles
            v.push(job(Cfg::new("handles.clonefrom", &[("x", 0)]), false, t));
            v.extend(oneshot_jobs(t));
            v.extend(state_jobs(t));
            v.extend(burst_jobs(t, &[2, 3]));
            v
        }
        "C15" => {
            let mut v = timer_jobs(t);
            v.push(wakerseq_job(t));
            v.extend(burst_jobs(t, &[7, 9]));
            // value sweep of delay(d): every whole millisecond up to 20 s, sub-millisecond
            // remainders, the neighbourhood of every power of two up to 2^70 ms
            v.push(job(Cfg::new("timer.sweep.local", &[("x", 0)]), false, t));
            v.push(job(Cfg::new("timer.sweep.std", &[("x", 0)]), false, t));
            v
        }
        "C08" => {
            let mut v = mpmc_jobs(t, true);
            v.extend(capscript_jobs(t));
            v
        }
        "C10" => {
            let mut v = mpmc_jobs(t, true);
            v.push(wakerseq_job(t));
            v.extend(script_jobs(t, &[2, 3], true));
            v.extend(capscript_jobs(t));
            v
        }
        "C09" => {
            let mut v = mpmc_jobs(t, false);
            v.extend(capscript_jobs(t));
            v
        }
        "C14" => {
            let mut v = event_jobs(t);
            v.push(wakerseq_job(t));
            v.push(cycles_job(t));
            v.push(job(Cfg::new("event.local", &[("set", 0), ("k", if t { 7 } else { 6 })]), false, t));
            v.extend(burst_jobs(t, &[0]));
            v
        }
        "C12" => {
            let mut v = oneshot_jobs(t);
            v.push(wakerseq_job(t));
            v.extend(burst_jobs(t, &[4, 5]));
            v
        }
        "C13" => {
            let mut v = state_jobs(t);
            v.push(wakerseq_job(t));
            v.extend(burst_jobs(t, &[6]));
            v
        }
        "C02" => mutex_jobs(t, false),
        "C03" => {
            let mut v = mutex_jobs(t, true);
            v.push(wakerseq_job(t));
            v.extend(burst_jobs(t, &[8]));
            v
        }
        "C04" => mutex_jobs(t, true),
        "C05" | "C07" => sem_jobs(t, false),
        "C06" => {
            let mut v = sem_jobs(t, true);
            v.push(wakerseq_job(t));
            v.push(cycles_job(t));
            v.extend(burst_jobs(t, &[1]));
            v
        }
        _ => vec![],
    }
}
