//! Which systems / configurations serve which property, per tier.

use crate::core::Cfg;

pub struct Job {
    pub cfg: Cfg,
    pub max_states: usize,
    pub wall_cap_s: f64,
    pub finish: bool,
}

fn job(cfg: Cfg, finish: bool, thorough: bool) -> Job {
    Job { cfg, max_states: if thorough { 6_000_000 } else { 1_500_000 }, wall_cap_s: if thorough { 1500.0 } else { 40.0 }, finish }
}

fn bits(v: &[u8]) -> i64 {
    v.iter().map(|b| 1i64 << b).sum()
}

pub fn sem_jobs(thorough: bool, finish: bool) -> Vec<Job> {
    let mut v = vec![];
    let flavours = ["sem.local", "sem.std", "sem.shared"];
    for (fi, fl) in flavours.iter().enumerate() {
        for fair in [1, 0] {
            if thorough {
                v.push(job(Cfg::new(fl, &[("fair", fair), ("permits", 0), ("k", 3), ("sizes", bits(&[0, 1, 2, 3])), ("cap", 4), ("rels", 1)]), finish, true));
                if fi == 0 {
                    v.push(job(Cfg::new(fl, &[("fair", fair), ("permits", 1), ("k", 4), ("sizes", bits(&[1, 2])), ("cap", 3), ("rels", 1)]), finish, true));
                    v.push(job(Cfg::new(fl, &[("fair", fair), ("permits", 2), ("k", 3), ("sizes", bits(&[1, 2, 3])), ("cap", 5), ("rels", 2)]), finish, true));
                }
            } else if fi == 0 {
                v.push(job(Cfg::new(fl, &[("fair", fair), ("permits", 0), ("k", 3), ("sizes", bits(&[0, 1, 2])), ("cap", 3), ("rels", 1)]), finish, false));
                v.push(job(Cfg::new(fl, &[("fair", fair), ("permits", 1), ("k", 3), ("sizes", bits(&[1, 3])), ("cap", 4), ("rels", 1)]), finish, false));
            } else {
                v.push(job(Cfg::new(fl, &[("fair", fair), ("permits", 0), ("k", 3), ("sizes", bits(&[1, 2])), ("cap", 3), ("rels", 1)]), finish, false));
            }
        }
    }
    v
}

pub fn plan(prop: &str, tier: &str) -> Vec<Job> {
    let t = tier == "thorough";
    match prop {
        "C05" | "C07" => sem_jobs(t, false),
        "C06" => sem_jobs(t, true),
        _ => vec![],
    }
}
