//! fiverif - model-checking engine for futures-intrusive (E-SEQ, E-DS).
//!
//!   fiverif run --prop C05 --tier quick --out /path/result.json
//!   fiverif replay --file /path/replay.json
//!   fiverif list
//!
//! Exit codes: 0 = ran to completion (violations are reported in the JSON),
//! 2 = machinery error.

mod core;
mod harness;
mod plan;
mod structcheck;
mod sys_burst;
mod sys_capscript;
mod sys_ds;
mod sys_event;
mod sys_mpmc;
mod sys_mutex;
mod sys_oneshot;
mod sys_state;
mod sys_timer;
mod sys_sem;

use crate::core::{Cfg, Opts, RunResult};
use serde_json::{json, Value};

#[global_allocator]
static GA: harness::Counting = harness::Counting;

type PL = harness::PLD;
type NL = futures_intrusive::verif::NoopLock;

macro_rules! systems {
    ($mac:ident) => {
        $mac! {
            "event.local" => sys_event::Sys<NL>,
            "event.std" => sys_event::Sys<PL>,
            "oneshot.local" => sys_oneshot::Sys<sys_oneshot::BOne<NL>>,
            "oneshot.std" => sys_oneshot::Sys<sys_oneshot::BOne<PL>>,
            "oneshot.shared" => sys_oneshot::Sys<sys_oneshot::SOne<PL>>,
            "bcast.local" => sys_oneshot::Sys<sys_oneshot::BBc<NL>>,
            "bcast.std" => sys_oneshot::Sys<sys_oneshot::BBc<PL>>,
            "bcast.shared" => sys_oneshot::Sys<sys_oneshot::SBc<PL>>,
            "state.local" => sys_state::Sys<sys_state::Borrowed<NL>>,
            "state.std" => sys_state::Sys<sys_state::Borrowed<PL>>,
            "state.shared" => sys_state::Sys<sys_state::Shared<PL>>,
            "timer.local" => sys_timer::Sys<sys_timer::Local>,
            "timer.std" => sys_timer::Sys<sys_timer::Std>,
            "timer.sweep.local" => sys_timer::Sweep<sys_timer::Local>,
            "timer.sweep.std" => sys_timer::Sweep<sys_timer::Std>,
            "mpmc.arrL0" => sys_mpmc::Sys<sys_mpmc::ArrL<0>>,
            "mpmc.arrL1" => sys_mpmc::Sys<sys_mpmc::ArrL<1>>,
            "mpmc.arrL2" => sys_mpmc::Sys<sys_mpmc::ArrL<2>>,
            "mpmc.arrL3" => sys_mpmc::Sys<sys_mpmc::ArrL<3>>,
            "mpmc.arrS0" => sys_mpmc::Sys<sys_mpmc::ArrS<0>>,
            "mpmc.arrS1" => sys_mpmc::Sys<sys_mpmc::ArrS<1>>,
            "mpmc.arrS2" => sys_mpmc::Sys<sys_mpmc::ArrS<2>>,
            "mpmc.fixS" => sys_mpmc::Sys<sys_mpmc::FixS>,
            "mpmc.shGrow" => sys_mpmc::Sys<sys_mpmc::ShGrow>,
            "mpmc.shFix" => sys_mpmc::Sys<sys_mpmc::ShFix>,
            "ring.arr0" => sys_ds::RingSys<futures_intrusive::buffer::ArrayBuf<harness::Tag, [harness::Tag; 0]>>,
            "ring.arr1" => sys_ds::RingSys<futures_intrusive::buffer::ArrayBuf<harness::Tag, [harness::Tag; 1]>>,
            "ring.arr2" => sys_ds::RingSys<futures_intrusive::buffer::ArrayBuf<harness::Tag, [harness::Tag; 2]>>,
            "ring.arr3" => sys_ds::RingSys<futures_intrusive::buffer::ArrayBuf<harness::Tag, [harness::Tag; 3]>>,
            "ring.arr4" => sys_ds::RingSys<futures_intrusive::buffer::ArrayBuf<harness::Tag, [harness::Tag; 4]>>,
            "ring.fix" => sys_ds::RingSys<futures_intrusive::buffer::FixedHeapBuf<harness::Tag>>,
            "ring.arrAl3" => sys_ds::RingSys<futures_intrusive::buffer::ArrayBuf<harness::Tag, sys_ds::Al3>>,
            "ring.arrPad2" => sys_ds::RingSys<futures_intrusive::buffer::ArrayBuf<harness::Tag, sys_ds::Pad2>>,
            "ringz.arr0" => sys_ds::ZstRingSys<futures_intrusive::buffer::ArrayBuf<sys_ds::ZTag, [sys_ds::ZTag; 0]>>,
            "ringz.arr1" => sys_ds::ZstRingSys<futures_intrusive::buffer::ArrayBuf<sys_ds::ZTag, [sys_ds::ZTag; 1]>>,
            "ringz.arr2" => sys_ds::ZstRingSys<futures_intrusive::buffer::ArrayBuf<sys_ds::ZTag, [sys_ds::ZTag; 2]>>,
            "ringz.arr3" => sys_ds::ZstRingSys<futures_intrusive::buffer::ArrayBuf<sys_ds::ZTag, [sys_ds::ZTag; 3]>>,
            "ringz.fix" => sys_ds::ZstRingSys<futures_intrusive::buffer::FixedHeapBuf<sys_ds::ZTag>>,
            "ringz.grow" => sys_ds::ZstRingSys<futures_intrusive::buffer::GrowingHeapBuf<sys_ds::ZTag>>,
            "ring.grow" => sys_ds::RingSys<futures_intrusive::buffer::GrowingHeapBuf<harness::Tag>>,
            "ringscript.arr63" => sys_ds::RingScript<futures_intrusive::buffer::ArrayBuf<harness::Tag, [harness::Tag; 63]>>,
            "ringscript.arr64" => sys_ds::RingScript<futures_intrusive::buffer::ArrayBuf<harness::Tag, [harness::Tag; 64]>>,
            "ringscript.arr96" => sys_ds::RingScript<futures_intrusive::buffer::ArrayBuf<harness::Tag, sys_ds::A96>>,
            "ringscript.arr128" => sys_ds::RingScript<futures_intrusive::buffer::ArrayBuf<harness::Tag, [harness::Tag; 128]>>,
            "ringscript.fix" => sys_ds::RingScript<futures_intrusive::buffer::FixedHeapBuf<harness::Tag>>,
            "ringscript.grow" => sys_ds::RingScript<futures_intrusive::buffer::GrowingHeapBuf<harness::Tag>>,
            "ds.list" => sys_ds::ListSys,
            "ds.heap" => sys_ds::HeapSys,
            "burst" => sys_burst::Sys,
            "burstscript" => sys_burst::Script,
            "wakerseq" => sys_burst::WakerSeq,
            "cycles" => sys_burst::Cycles,
            "mpmc.capscript.fix" => sys_capscript::Fix,
            "mpmc.capscript.grow" => sys_capscript::Grow,
            "mpmc.bigpayload" => sys_capscript::BigPayload,
            "handles.clonefrom" => sys_capscript::HandleScript,
            "panicwaker" => sys_capscript::PanicWaker,
            "ds.heapscript" => sys_ds::HeapScript,
            "ringscript.arr65536" => sys_ds::BigRing,
            "mutex.local" => sys_mutex::Sys<NL>,
            "mutex.std" => sys_mutex::Sys<PL>,
            "sem.local" => sys_sem::Sys<sys_sem::Borrowed<NL>>,
            "sem.std" => sys_sem::Sys<sys_sem::Borrowed<PL>>,
            "sem.shared" => sys_sem::Sys<sys_sem::Shared<PL>>,
        }
    };
}

macro_rules! gen_dispatch {
    ($($name:literal => $ty:ty,)*) => {
        pub fn run_explore(cfg: &Cfg, opts: &Opts) -> RunResult {
            match cfg.system {
                $($name => core::explore::<$ty>(cfg, opts),)*
                other => panic!("unknown system {}", other),
            }
        }
        pub fn run_replay(cfg: &Cfg, names: &[String]) -> Result<Vec<String>, String> {
            match cfg.system {
                $($name => core::replay_named::<$ty>(cfg, names),)*
                other => Err(format!("unknown system {}", other)),
            }
        }
        pub fn system_names() -> Vec<&'static str> { vec![$($name,)*] }
    };
}
systems!(gen_dispatch);

fn arg(args: &[String], name: &str) -> Option<String> {
    args.iter().position(|a| a == name).and_then(|i| args.get(i + 1).cloned())
}

fn main() {
    let args: Vec<String> = std::env::args().collect();
    if args.len() < 2 {
        eprintln!("usage: fiverif run|replay|list ...");
        std::process::exit(2);
    }
    harness::install_silent_panic_hook();
    match args[1].as_str() {
        "list" => {
            for s in system_names() {
                println!("{}", s);
            }
        }
        "run" => {
            let prop = arg(&args, "--prop").expect("--prop");
            let tier = arg(&args, "--tier").unwrap_or_else(|| "quick".into());
            let out = arg(&args, "--out").expect("--out");
            let threads: usize = arg(&args, "--threads").and_then(|s| s.parse().ok()).unwrap_or(16);
            let only = arg(&args, "--only");
            let scope_all = args.iter().any(|a| a == "--all-props");
            harness::set_free_on_drop(args.iter().any(|a| a == "--free-on-drop"));
            let hang_secs: f64 = arg(&args, "--hang-secs").and_then(|s| s.parse().ok()).unwrap_or(30.0);
            if let Some(tf) = arg(&args, "--trace-file") {
                let f = std::fs::File::create(&tf).expect("create trace file");
                let _ = core::TRACE_FILE.set(std::sync::Mutex::new(f));
            }
            {
                // hang watchdog: a library call that does not return is reported with its history
                let out = out.clone();
                let prop = prop.clone();
                let tier = tier.clone();
                std::thread::spawn(move || loop {
                    std::thread::sleep(std::time::Duration::from_millis(500));
                    let p = core::progress();
                    for slot in p.slots.iter() {
                        let cur = slot.lock().unwrap().clone();
                        if let Some((t, i, op)) = cur {
                            if t.elapsed().as_secs_f64() > hang_secs {
                                let mut hist: Vec<String> = match p.formatter.lock().unwrap().as_ref() {
                                    Some(f) => f(i),
                                    None => vec![],
                                };
                                if let Some(o) = op {
                                    hist.push(o);
                                }
                                let cfg = p.cfg.lock().unwrap().clone();
                                let system = cfg.as_ref().map(|c| c.system).unwrap_or("?");
                                let attributed = cfg.as_ref().map(core::panic_property).unwrap_or("C01");
                                let doc = json!({
                                    "engine": "E-SEQ", "property": prop, "tier": tier, "runs": [], "violations": 1,
                                    "hang": {"attributed_to": attributed, "config_json": cfg.as_ref().map(|c| c.to_json()), "config": cfg.as_ref().map(|c| c.label()),
                                             "history": hist, "seconds": hang_secs,
                                             "message": format!("a library call did not return within {} s (infinite loop / deadlock inside the crate)", hang_secs)},
                                });
                                let _ = std::fs::write(&out, serde_json::to_string_pretty(&doc).unwrap());
                                eprintln!("HANG detected in {} after history {:?}", system, hist);
                                std::process::exit(0);
                            }
                        }
                    }
                });
            }
            let jobs = plan::plan(&prop, &tier);
            if jobs.is_empty() {
                eprintln!("no E-SEQ/E-DS jobs for property {} tier {}", prop, tier);
                std::process::exit(2);
            }
            let t0 = std::time::Instant::now();
            let mut results: Vec<Value> = vec![];
            let mut total_viol = 0usize;
            for job in jobs {
                if let Some(o) = &only {
                    if !job.cfg.label().contains(o.as_str()) {
                        continue;
                    }
                }
                let opts = Opts {
                    scope: if scope_all { None } else { Some(prop.clone()) },
                    threads,
                    max_states: job.max_states,
                    wall_cap_s: job.wall_cap_s,
                    finish: job.finish,
                    max_found: 8,
                    symmetry: true,
                };
                let r = run_explore(&job.cfg, &opts);
                eprintln!(
                    "[{}] {} states={} transitions={} depth={} fixpoint={} cap={:?} violations={} outcomes={} {:.2}s",
                    prop,
                    job.cfg.label(),
                    r.states,
                    r.transitions,
                    r.depth,
                    r.fixpoint,
                    r.cap_hit,
                    r.found.len(),
                    r.outcomes,
                    r.wall_s
                );
                total_viol += r.found.len();
                let mut j = r.to_json();
                j["config_json"] = job.cfg.to_json();
                j["samples"] = json!(r.samples);
                results.push(j);
            }
            let doc = json!({
                "engine": if prop == "C19" || prop == "C20" { "E-DS" } else { "E-SEQ" },
                "property": prop,
                "tier": tier,
                "runs": results,
                "violations": total_viol,
                "wall_s": t0.elapsed().as_secs_f64(),
            });
            std::fs::write(&out, serde_json::to_string_pretty(&doc).unwrap()).expect("write result");
        }
        "explore" => {
            // ad-hoc: fiverif explore --system sem.local --params fair=1,k=4,... [--prop C06] [--finish]
            let system: &'static str = Box::leak(arg(&args, "--system").expect("--system").into_boxed_str());
            let mut params: Vec<(&'static str, i64)> = vec![];
            for kv in arg(&args, "--params").unwrap_or_default().split(',').filter(|x| !x.is_empty()) {
                let (k, v) = kv.split_once('=').expect("k=v");
                params.push((Box::leak(k.to_string().into_boxed_str()), v.parse().expect("integer")));
            }
            let cfg = Cfg { system, params };
            let opts = Opts {
                scope: arg(&args, "--prop"),
                threads: arg(&args, "--threads").and_then(|s| s.parse().ok()).unwrap_or(16),
                max_states: 50_000_000,
                wall_cap_s: arg(&args, "--wall").and_then(|s| s.parse().ok()).unwrap_or(3600.0),
                finish: args.iter().any(|a| a == "--finish"),
                max_found: 8,
                symmetry: true,
            };
            let r = run_explore(&cfg, &opts);
            println!("{} states={} transitions={} depth={} fixpoint={} cap={:?} violations={} {:.1}s", cfg.label(), r.states, r.transitions, r.depth, r.fixpoint, r.cap_hit, r.found.len(), r.wall_s);
            for f in &r.found {
                println!("  {} {} x{}: {} after {:?}", f.prop, f.clause, f.count, f.msg, f.history);
            }
        }
        "replay" => {
            let file = arg(&args, "--file").expect("--file");
            let txt = std::fs::read_to_string(&file).expect("read replay file");
            let doc: Value = serde_json::from_str(&txt).expect("parse replay file");
            let system: &'static str = Box::leak(doc["config"]["system"].as_str().expect("system").to_string().into_boxed_str());
            let mut params: Vec<(&'static str, i64)> = vec![];
            for (k, v) in doc["config"]["params"].as_object().expect("params") {
                params.push((Box::leak(k.clone().into_boxed_str()), v.as_i64().unwrap()));
            }
            let cfg = Cfg { system, params };
            let names: Vec<String> = doc["history"].as_array().expect("history").iter().map(|v| v.as_str().unwrap().to_string()).collect();
            harness::set_free_on_drop(args.iter().any(|a| a == "--free-on-drop"));
            let hang_secs: f64 = arg(&args, "--hang-secs").and_then(|s| s.parse().ok()).unwrap_or(30.0);
            std::thread::spawn(move || {
                std::thread::sleep(std::time::Duration::from_secs_f64(hang_secs));
                println!("VIOLATION hang: the replayed history did not finish within {} s (a library call does not return)", hang_secs);
                std::process::exit(1);
            });
            match run_replay(&cfg, &names) {
                Ok(log) => {
                    let mut bad = false;
                    for l in &log {
                        println!("{}", l);
                        if l.contains("VIOLATION") {
                            bad = true;
                        }
                    }
                    if bad {
                        println!("replay: violation reproduced");
                        std::process::exit(1);
                    } else {
                        println!("replay: no violation");
                    }
                }
                Err(e) => {
                    eprintln!("replay failed: {}", e);
                    std::process::exit(2);
                }
            }
        }
        _ => {
            eprintln!("unknown subcommand");
            std::process::exit(2);
        }
    }
}
