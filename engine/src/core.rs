//! E-SEQ core: explicit-state breadth-first search whose transition function is
//! the real crate. A state is represented by the operation history that
//! reaches it and is rebuilt by replaying that history on a fresh primitive.

use crate::harness;
use serde_json::{json, Value};
use std::collections::{BTreeMap, HashSet};
use std::fmt::Debug;
use std::sync::atomic::{AtomicUsize, Ordering};
use std::sync::Mutex;
use std::time::Instant;

#[derive(Clone, Debug)]
pub struct Violation {
    pub prop: &'static str,
    /// short, stable name of the violated monitor clause
    pub clause: &'static str,
    pub msg: String,
    /// a pure state predicate (wake-up invariant, is_terminated, allocation count): it neither
    /// changes nor invalidates any monitor's ghost state, so exploration may continue behind it
    /// when it belongs to a property other than the one being checked
    pub pure: bool,
}

#[derive(Default)]
pub struct StepOut {
    pub viol: Vec<Violation>,
    /// observation of this step (results, wake-ups) - used for the replay
    /// determinism check and for the count of distinct outcomes
    pub obs: String,
    /// the implementation state is structurally corrupt: never expand
    pub corrupt: bool,
}

impl StepOut {
    pub fn v(&mut self, prop: &'static str, clause: &'static str, msg: String) {
        self.viol.push(Violation { prop, clause, msg, pure: false });
    }
    /// a violated pure state predicate (see `Violation::pure`)
    pub fn p(&mut self, prop: &'static str, clause: &'static str, msg: String) {
        self.viol.push(Violation { prop, clause, msg, pure: true });
    }
    pub fn o(&mut self, s: &str) {
        if !self.obs.is_empty() {
            self.obs.push(' ');
        }
        self.obs.push_str(s);
    }
}

#[derive(Clone, Debug)]
pub struct Cfg {
    pub system: &'static str,
    pub params: Vec<(&'static str, i64)>,
}

impl Cfg {
    pub fn new(system: &'static str, params: &[(&'static str, i64)]) -> Cfg {
        Cfg { system, params: params.to_vec() }
    }
    pub fn get(&self, k: &str) -> i64 {
        self.params
            .iter()
            .find(|p| p.0 == k)
            .map(|p| p.1)
            .unwrap_or_else(|| panic!("config key {} missing for {}", k, self.system))
    }
    pub fn get_or(&self, k: &str, d: i64) -> i64 {
        self.params.iter().find(|p| p.0 == k).map(|p| p.1).unwrap_or(d)
    }
    pub fn flag(&self, k: &str) -> bool {
        self.get_or(k, 0) != 0
    }
    pub fn label(&self) -> String {
        let ps: Vec<String> = self.params.iter().map(|(k, v)| format!("{}={}", k, v)).collect();
        format!("{}({})", self.system, ps.join(","))
    }
    pub fn with(&self, k: &'static str, v: i64) -> Cfg {
        let mut c = self.clone();
        if let Some(p) = c.params.iter_mut().find(|p| p.0 == k) {
            p.1 = v;
        } else {
            c.params.push((k, v));
        }
        c
    }
    pub fn to_json(&self) -> Value {
        let m: BTreeMap<String, i64> = self.params.iter().map(|(k, v)| (k.to_string(), *v)).collect();
        json!({"system": self.system, "params": m})
    }
}

pub trait System: Sized {
    type Op: Copy + Debug + PartialEq + Send + Sync + 'static;
    /// fresh REAL primitive, empty slots, empty monitors
    fn new(cfg: &Cfg) -> Self;
    /// the menu of operations in the current harness state
    fn enabled(&self) -> Vec<Self::Op>;
    /// calls the real API, feeds the monitors
    fn apply(&mut self, op: Self::Op, out: &mut StepOut);
    /// canonical joint state: implementation snapshot + harness + monitors
    fn fingerprint(&self) -> Vec<u8>;
    /// graph-level checks evaluated on a replayed copy of each state (drain /
    /// liveness closure, teardown). Consumes the state.
    fn finish(self, out: &mut StepOut);
}

/// what every worker is executing right now (for the hang watchdog): start
/// time, index of the history in the current frontier, the operation
pub struct Progress {
    pub slots: Vec<Mutex<Option<(Instant, usize, Option<String>)>>>,
    /// formats the history with the given frontier index (valid while a level is running)
    pub formatter: Mutex<Option<Box<dyn Fn(usize) -> Vec<String> + Send>>>,
    pub cfg: Mutex<Option<Cfg>>,
}

pub static PROGRESS: std::sync::OnceLock<Progress> = std::sync::OnceLock::new();
/// valgrind / Miri mode: every transition is appended to this file before it is executed
pub static TRACE_FILE: std::sync::OnceLock<Mutex<std::fs::File>> = std::sync::OnceLock::new();

pub fn progress() -> &'static Progress {
    PROGRESS.get_or_init(|| Progress { slots: (0..64).map(|_| Mutex::new(None)).collect(), formatter: Mutex::new(None), cfg: Mutex::new(None) })
}

struct SendPtr<T>(*const T);
unsafe impl<T> Send for SendPtr<T> {}

fn note_start<Op: Debug>(worker: usize, i: usize, h: &[Op], op: Option<&Op>, cfg: &Cfg) {
    if let Some(f) = TRACE_FILE.get() {
        use std::io::Write;
        let mut f = f.lock().unwrap();
        let hist: Vec<String> = h.iter().chain(op.into_iter()).map(|o| format!("{:?}", o)).collect();
        let _ = writeln!(f, "{}", json!({"config": cfg.to_json(), "history": hist}));
        let _ = f.flush();
    }
    *progress().slots[worker % 64].lock().unwrap() = Some((Instant::now(), i, op.map(|o| format!("{:?}", o))));
}
/// Scripted systems perform thousands of library calls inside one explorer operation: they call
/// this every so often, so that the hang watchdog measures the time since the last completed
/// library call, not the duration of the whole script (a slower but correct implementation is not
/// a hang). Refreshes every active slot.
pub fn heartbeat() {
    for slot in progress().slots.iter() {
        if let Ok(mut g) = slot.try_lock() {
            if let Some(e) = g.as_mut() {
                e.0 = Instant::now();
            }
        }
    }
}
fn note_end(worker: usize) {
    *progress().slots[worker % 64].lock().unwrap() = None;
}

#[derive(Clone)]
pub struct Opts {
    /// property whose violations stop expansion and are reported; None = all
    pub scope: Option<String>,
    pub threads: usize,
    pub max_states: usize,
    pub wall_cap_s: f64,
    pub finish: bool,
    pub max_found: usize,
    pub symmetry: bool,
}

#[derive(Clone, Debug)]
pub struct Found {
    pub prop: String,
    pub clause: String,
    pub msg: String,
    pub history: Vec<String>,
    pub count: u64,
    pub deterministic: bool,
}

#[derive(Default)]
pub struct RunResult {
    pub cfg: Option<Cfg>,
    pub states: u64,
    pub transitions: u64,
    pub finish_runs: u64,
    pub depth: usize,
    pub fixpoint: bool,
    pub cap_hit: Option<String>,
    pub found: Vec<Found>,
    pub other_props: BTreeMap<String, u64>,
    pub outcomes: u64,
    pub truncated_by_corruption: u64,
    pub truncated_by_other_property: u64,
    pub samples: Vec<Vec<String>>,
    pub wall_s: f64,
    pub per_depth: Vec<u64>,
}

impl RunResult {
    pub fn to_json(&self) -> Value {
        json!({
            "config": self.cfg.as_ref().map(|c| c.label()),
            "states": self.states,
            "transitions": self.transitions,
            "finish_runs": self.finish_runs,
            "depth": self.depth,
            "fixpoint": self.fixpoint,
            "cap_hit": self.cap_hit,
            "distinct_outcomes": self.outcomes,
            "truncated_by_corruption": self.truncated_by_corruption,
            "truncated_by_other_property": self.truncated_by_other_property,
            "violations_other_properties": self.other_props,
            "states_per_depth": self.per_depth,
            "wall_s": (self.wall_s * 1000.0).round() / 1000.0,
            "violations": self.found.iter().map(|f| json!({
                "property": f.prop, "clause": f.clause, "message": f.msg,
                "history": f.history, "occurrences": f.count, "deterministic": f.deterministic,
            })).collect::<Vec<_>>(),
        })
    }
}

/// property that owns "a call panicked / hung" for a system
pub fn panic_property(cfg: &Cfg) -> &'static str {
    if cfg.system.starts_with("ring.") {
        "C19"
    } else if cfg.system.starts_with("ds.") {
        "C20"
    } else {
        "C01"
    }
}

/// `apply` with a safety net: a panic that escapes the per-call wrappers of a system (raised by a
/// read-only hook walking a corrupted structure, by a debug assertion of the crate reached through
/// an accessor, or by the harness itself) is reported as a violation and marks the state corrupt.
pub fn safe_apply<S: System>(cfg: &Cfg, s: &mut S, op: S::Op, out: &mut StepOut) {
    if let Err(e) = std::panic::catch_unwind(std::panic::AssertUnwindSafe(|| s.apply(op, out))) {
        let msg = e.downcast_ref::<&str>().map(|s| s.to_string()).or_else(|| e.downcast_ref::<String>().cloned()).unwrap_or_default();
        out.v(panic_property(cfg), "panic", format!("panic while inspecting the structure after the operation (debug assertion of the crate / corrupted structure): {}", msg));
        out.corrupt = true;
    }
    if out.corrupt {
        // after a panic / structural corruption the pure state predicates (wake-up flags,
        // is_terminated vs. harness bookkeeping, allocation counts) of this step are not
        // meaningful: the harness bookkeeping itself was interrupted
        out.viol.retain(|v| !v.pure);
    }
}

pub fn build<S: System>(cfg: &Cfg, h: &[S::Op]) -> S {
    harness::reset_thread_state();
    harness::set_alt_wakers(cfg.flag("altw"));
    let mut s = S::new(cfg);
    let mut out = StepOut::default();
    for &op in h {
        out.viol.clear();
        out.obs.clear();
        safe_apply(cfg, &mut s, op, &mut out);
    }
    s
}

/// Replays a history and returns the per-step observation log including the
/// violations raised by each step.
pub fn replay_log<S: System>(cfg: &Cfg, h: &[S::Op]) -> Vec<String> {
    harness::reset_thread_state();
    harness::set_alt_wakers(cfg.flag("altw"));
    let mut s = S::new(cfg);
    let mut log = vec![];
    for &op in h {
        let mut out = StepOut::default();
        safe_apply(cfg, &mut s, op, &mut out);
        let vs: Vec<String> = out.viol.iter().map(|v| format!("{}:{}", v.prop, v.clause)).collect();
        log.push(format!("{:?} -> {} {}{}", op, out.obs, if out.corrupt { "CORRUPT " } else { "" }, vs.join(" | ")));
        if out.corrupt {
            std::mem::forget(s);
            return log;
        }
    }
    log
}

struct WorkerOut<Op> {
    next: Vec<(Vec<u8>, Vec<Op>)>,
    viol: Vec<(Violation, Vec<Op>)>,
    transitions: u64,
    finish_runs: u64,
    outcomes: HashSet<String>,
    truncated: u64,
    truncated_other: u64,
}

fn opname<Op: Debug>(op: &Op) -> String {
    let s = format!("{:?}", op);
    s.split(|c| c == '(' || c == '{' || c == ' ').next().unwrap_or("").to_string()
}

pub fn explore<S: System>(cfg: &Cfg, opts: &Opts) -> RunResult {
    let t0 = Instant::now();
    let mut res = RunResult { cfg: Some(cfg.clone()), ..Default::default() };
    let mut seen: HashSet<Vec<u8>> = HashSet::new();
    {
        let s0 = build::<S>(cfg, &[]);
        seen.insert(s0.fingerprint());
    }
    let mut frontier: Vec<Vec<S::Op>> = vec![vec![]];
    let mut outcomes: HashSet<String> = HashSet::new();
    let mut found: BTreeMap<(String, String), (Found, Vec<S::Op>)> = BTreeMap::new();
    let in_scope = |p: &str| opts.scope.as_deref().map_or(true, |s| s == p);
    res.per_depth.push(1);
    res.samples.push(vec![]);
    let mut deepest: Vec<S::Op> = vec![];

    while !frontier.is_empty() {
        if t0.elapsed().as_secs_f64() > opts.wall_cap_s {
            res.cap_hit = Some(format!("wall clock cap {} s", opts.wall_cap_s));
            break;
        }
        if seen.len() > opts.max_states {
            res.cap_hit = Some(format!("state cap {}", opts.max_states));
            break;
        }
        let idx = AtomicUsize::new(0);
        let outs: Mutex<Vec<WorkerOut<S::Op>>> = Mutex::new(vec![]);
        let fr = &frontier;
        {
            let frp = SendPtr(fr as *const Vec<Vec<S::Op>>);
            *progress().formatter.lock().unwrap() = Some(Box::new(move |i| {
                let frp = &frp;
                let v: &Vec<Vec<S::Op>> = unsafe { &*frp.0 };
                v.get(i).map(|h| h.iter().map(|o| format!("{:?}", o)).collect()).unwrap_or_default()
            }));
            *progress().cfg.lock().unwrap() = Some(cfg.clone());
        }
        let nthreads = opts.threads.max(1).min(fr.len().max(1));
        std::thread::scope(|sc| {
            for wid in 0..nthreads {
                let idx = &idx;
                let outs = &outs;
                let in_scope = &in_scope;
                sc.spawn(move || {
                    let mut w = WorkerOut { next: vec![], viol: vec![], transitions: 0, finish_runs: 0, outcomes: HashSet::new(), truncated: 0, truncated_other: 0 };
                    let mut local: HashSet<Vec<u8>> = HashSet::new();
                    loop {
                        let i = idx.fetch_add(1, Ordering::Relaxed);
                        if i >= fr.len() {
                            break;
                        }
                        if t0.elapsed().as_secs_f64() > opts.wall_cap_s * 1.2 + 5.0 {
                            break;
                        }
                        let h = &fr[i];
                        note_start(wid, i, h, None, cfg);
                        let base = build::<S>(cfg, h);
                        let ops = base.enabled();
                        if opts.finish {
                            let mut out = StepOut::default();
                            base.finish(&mut out);
                            w.finish_runs += 1;
                            for v in out.viol {
                                let mut hh = h.clone();
                                hh.truncate(h.len());
                                w.viol.push((Violation { prop: v.prop, clause: v.clause, msg: format!("[at end of history] {}", v.msg), pure: v.pure }, hh));
                            }
                        } else {
                            let _ = std::panic::catch_unwind(std::panic::AssertUnwindSafe(|| drop(base)));
                            let _ = harness::take_teardown_panic();
                        }
                        for op in ops {
                            note_start(wid, i, h, Some(&op), cfg);
                            let mut s = build::<S>(cfg, h);
                            let mut out = StepOut::default();
                            safe_apply(cfg, &mut s, op, &mut out);
                            w.transitions += 1;
                            let mut hh = h.clone();
                            hh.push(op);
                            w.outcomes.insert(format!("{} {}", opname(&op), out.obs));
                            let mut stop = out.corrupt;
                            if out.corrupt {
                                w.truncated += 1;
                            }
                            // a successor that violates ANY monitor is not expanded: the ghost state of
                            // the other monitors is no longer trustworthy behind it, and reporting a
                            // follow-up symptom under another property id would be a wrong attribution
                            // (pure state predicates of other properties - wake-up invariants,
                            // is_terminated, allocation counts - leave every ghost state intact and do
                            // not stop the search: otherwise e.g. a fair-mutex change that first wakes
                            // the wrong waiter (C03) and only then lets it overtake (C04) would never
                            // be reported by the C04 check)
                            if out.viol.iter().any(|v| in_scope(v.prop)) {
                                stop = true;
                            } else if out.viol.iter().any(|v| !v.pure) {
                                stop = true;
                                w.truncated_other += 1;
                            }
                            for v in out.viol {
                                w.viol.push((v, hh.clone()));
                            }
                            if !stop {
                                let f = s.fingerprint();
                                if !local.contains(&f) {
                                    local.insert(f.clone());
                                    w.next.push((f, hh.clone()));
                                }
                            }
                            if out.corrupt {
                                // tearing down a structurally corrupt primitive can touch
                                // dangling nodes (e.g. a releaser waking a freed waiter):
                                // leak it instead
                                std::mem::forget(s);
                            } else {
                                // dropping all remaining futures and then the primitive is itself a
                                // contract-respecting continuation of the history
                                let r = std::panic::catch_unwind(std::panic::AssertUnwindSafe(|| drop(s)));
                                let msg = match r {
                                    Err(e) => Some(e.downcast_ref::<&str>().map(|s| s.to_string()).or_else(|| e.downcast_ref::<String>().cloned()).unwrap_or_default()),
                                    Ok(()) => harness::take_teardown_panic(),
                                };
                                if let Some(msg) = msg {
                                    w.viol.push((Violation { prop: "C01", clause: "panic-at-teardown", msg: format!("dropping the remaining futures and the primitive at the end of this history panicked: {}", msg), pure: false }, hh.clone()));
                                }
                            }
                        }
                    }
                    note_end(wid);
                    outs.lock().unwrap().push(w);
                });
            }
        });
        *progress().formatter.lock().unwrap() = None;
        let mut next: Vec<Vec<S::Op>> = vec![];
        let mut outs = outs.into_inner().unwrap();
        // merge order: sort candidate successors by fingerprint
        let mut cands: Vec<(Vec<u8>, Vec<S::Op>)> = vec![];
        for w in outs.iter_mut() {
            res.transitions += w.transitions;
            res.finish_runs += w.finish_runs;
            res.truncated_by_corruption += w.truncated;
            res.truncated_by_other_property += w.truncated_other;
            for o in w.outcomes.drain() {
                outcomes.insert(o);
            }
            cands.append(&mut w.next);
            for (v, hh) in w.viol.drain(..) {
                if in_scope(v.prop) {
                    let key = (v.prop.to_string(), v.clause.to_string());
                    let e = found.entry(key).or_insert_with(|| {
                        (Found { prop: v.prop.to_string(), clause: v.clause.to_string(), msg: v.msg.clone(), history: vec![], count: 0, deterministic: true }, hh.clone())
                    });
                    e.0.count += 1;
                    let cand = format!("{:?}", hh);
                    if hh.len() < e.1.len() || (hh.len() == e.1.len() && cand < format!("{:?}", e.1)) {
                        e.1 = hh;
                        e.0.msg = v.msg;
                    }
                } else {
                    *res.other_props.entry(v.prop.to_string()).or_default() += 1;
                }
            }
        }
        cands.sort_by(|a, b| a.0.cmp(&b.0).then(a.1.len().cmp(&b.1.len())));
        for (f, hh) in cands {
            if seen.insert(f) {
                next.push(hh);
            }
        }
        if !next.is_empty() {
            res.depth += 1;
            res.per_depth.push(next.len() as u64);
            deepest = next[next.len() / 2].clone();
            if res.samples.len() < 4 {
                res.samples.push(next[0].iter().map(|o| format!("{:?}", o)).collect());
            }
        }
        frontier = next;
        if found.len() >= opts.max_found {
            res.cap_hit = Some("violation limit reached, exploration stopped early".into());
            break;
        }
    }
    res.fixpoint = frontier.is_empty() && res.cap_hit.is_none();
    res.states = seen.len() as u64;
    res.outcomes = outcomes.len() as u64;
    res.samples.push(deepest.iter().map(|o| format!("{:?}", o)).collect());
    // replay determinism of every reported violation
    for (_, (mut f, hh)) in found {
        let a = replay_log::<S>(cfg, &hh);
        let b = replay_log::<S>(cfg, &hh);
        f.deterministic = a == b;
        f.history = hh.iter().map(|o| format!("{:?}", o)).collect();
        res.found.push(f);
    }
    res.wall_s = t0.elapsed().as_secs_f64();
    res
}

/// Re-executes a recorded history (operation names as printed by Debug) on the
/// real code without the explorer. Returns the observation log, or an error if
/// an operation of the history is not enabled.
pub fn replay_named<S: System>(cfg: &Cfg, names: &[String]) -> Result<Vec<String>, String> {
    harness::reset_thread_state();
    harness::set_alt_wakers(cfg.flag("altw"));
    let mut s = S::new(cfg);
    let mut log = vec![];
    for (i, n) in names.iter().enumerate() {
        let ops = s.enabled();
        let op = ops
            .iter()
            .find(|o| &format!("{:?}", o) == n)
            .copied()
            .ok_or_else(|| format!("step {}: operation {} is not enabled (menu: {:?})", i, n, ops))?;
        let mut out = StepOut::default();
        safe_apply(cfg, &mut s, op, &mut out);
        let vs: Vec<String> = out.viol.iter().map(|v| format!("VIOLATION {}:{}: {}", v.prop, v.clause, v.msg)).collect();
        log.push(format!("{:?} -> {} {}{}", op, out.obs, if out.corrupt { "CORRUPT " } else { "" }, vs.join(" | ")));
        if out.corrupt {
            log.push("state is structurally corrupt: replay stops here (the primitive is leaked, not torn down)".to_string());
            std::mem::forget(s);
            return Ok(log);
        }
    }
    let mut out = StepOut::default();
    s.finish(&mut out);
    for v in out.viol {
        log.push(format!("[finish] VIOLATION {}:{}: {}", v.prop, v.clause, v.msg));
    }
    Ok(log)
}
