//! E-SEQ system: async mutex (local / parking_lot).
//! Monitors: C01, C02 (at most one guard), C03 (no lost wake-up), C04 (fair
//! FIFO), C17, C18.

use crate::core::{Cfg, StepOut, System};
use crate::harness::{self, fresh, lib, sample_seen, stale_wake, wid, Meta, Pinned};
use crate::structcheck::{self, LiveNode};
use futures_core::future::FusedFuture;
use futures_intrusive::sync::{GenericMutex, GenericMutexGuard, GenericMutexLockFuture};
use lock_api::RawMutex;
use std::future::Future;
use std::task::{Context, Poll};

#[derive(Clone, Copy, Debug, PartialEq)]
pub enum Op {
    Create(u8),
    Poll(u8, u8),
    PollDone(u8),
    DropFut(u8),
    TryLock,
    Unlock(u8),
}

struct Slot<M: RawMutex + 'static> {
    fut: Pinned<GenericMutexLockFuture<'static, M, u32>>,
    meta: Meta,
    wait_seq: u64,
}

pub struct Sys<M: RawMutex + 'static> {
    slots: Vec<Option<Slot<M>>>,
    guards: Vec<GenericMutexGuard<'static, M, u32>>,
    graveyard: Vec<Pinned<GenericMutexLockFuture<'static, M, u32>>>,
    dead: Vec<(usize, usize)>,
    mutex: Box<GenericMutex<M, u32>>,
    fair: bool,
    k: usize,
    seq: u64,
    /// value written by the latest holder
    stamp: u32,
    symmetry: bool,
    unwind: bool,
    try_guards: usize,
}

const G: usize = 0;

impl<M: RawMutex + 'static> Sys<M> {
    fn mref(&self) -> &'static GenericMutex<M, u32> {
        unsafe { &*(&*self.mutex as *const GenericMutex<M, u32>) }
    }
    fn pending(&self, i: usize) -> bool {
        matches!(&self.slots[i], Some(s) if s.meta.pending())
    }
    fn order(&self) -> Vec<usize> {
        let mut o: Vec<(u64, usize)> = (0..self.k).filter(|&j| self.pending(j)).map(|j| (self.slots[j].as_ref().unwrap().wait_seq, j)).collect();
        o.sort();
        o.into_iter().map(|x| x.1).collect()
    }
    fn live_nodes(&self) -> Vec<LiveNode> {
        let mut v = vec![];
        for (i, s) in self.slots.iter().enumerate() {
            if let Some(s) = s {
                if s.fut.is_alive() {
                    let node = s.fut.get().verif_node();
                    v.push(LiveNode::new(G, i, node, &s.meta));
                }
            }
        }
        v
    }

    /// a lock attempt produced a guard
    fn on_acquired(&mut self, mut g: GenericMutexGuard<'static, M, u32>, who: &str, out: &mut StepOut) {
        if !self.guards.is_empty() {
            out.v("C02", "two-guards", format!("{} obtained a guard while {} guard(s) are alive", who, self.guards.len()));
        }
        let seen = lib(|| *g).unwrap_or(u32::MAX);
        if seen != self.stamp {
            out.v("C02", "payload", format!("{} reads {} through its guard, the previous holder wrote {}", who, seen, self.stamp));
        }
        self.stamp += 1;
        let st = self.stamp;
        let _ = lib(|| *g = st);
        self.guards.push(g);
    }

    fn invariants(&mut self, out: &mut StepOut) {
        let (na, nf) = harness::take_alloc_counts();
        if na + nf > 0 {
            out.p("C18", "alloc-in-call", format!("{} allocations / {} frees inside library calls of this step", na, nf));
        }
        let snap = self.mutex.verif_snapshot();
        let live = self.live_nodes();
        structcheck::check_errors(&snap.errors, out);
        structcheck::check_queue("waiters", &snap.queues[0], &live, &self.dead, out);
        structcheck::check_membership(&[&snap.queues[0]], &live, out);
        for (i, s) in self.slots.iter().enumerate() {
            if let Some(s) = s {
                if s.fut.is_alive() && s.fut.get().is_terminated() != s.meta.done {
                    out.p("C17", "is-terminated", format!("slot {}: is_terminated()={} but completed={}", i, s.fut.get().is_terminated(), s.meta.done));
                }
            }
        }
        // C02
        let locked = self.mutex.is_locked();
        if locked != (self.guards.len() == 1) && self.guards.len() <= 1 {
            out.v("C02", "is-locked", format!("is_locked()={} while {} guard(s) are alive", locked, self.guards.len()));
        }
        // C03
        let order = self.order();
        if self.guards.is_empty() && !order.is_empty() {
            let metas: Vec<bool> = order.iter().map(|&j| fresh(G, j, &self.slots[j].as_ref().unwrap().meta)).collect();
            if !metas.iter().any(|&f| f) {
                out.p("C03", "lost-wakeup", format!("mutex is free, lock futures {:?} are pending, none of them has been woken through the waker of its latest poll", order));
            } else if self.fair && !metas[0] {
                out.p("C03", "fair-oldest-not-woken", format!("fair mutex is free, the longest-waiting pending future (slot {}) has not been woken (woken: {:?} of {:?})", order[0], metas, order));
            }
        }
    }
}

impl<M: RawMutex + 'static> System for Sys<M> {
    type Op = Op;

    fn new(cfg: &Cfg) -> Self {
        let k = cfg.get("k") as usize;
        Sys {
            slots: (0..k).map(|_| None).collect(),
            guards: vec![],
            graveyard: vec![],
            dead: vec![],
            mutex: Box::new(GenericMutex::new(0, cfg.flag("fair"))),
            fair: cfg.flag("fair"),
            k,
            seq: 0,
            stamp: 0,
            symmetry: cfg.get_or("symmetry", 1) != 0,
            unwind: cfg.flag("unwind"),
            try_guards: 0,
        }
    }

    fn enabled(&self) -> Vec<Op> {
        let mut v = vec![];
        let mut created = false;
        for i in 0..self.k {
            match &self.slots[i] {
                None => {
                    if !(self.symmetry && created) {
                        v.push(Op::Create(i as u8));
                        created = true;
                    }
                }
                Some(s) => {
                    if !s.meta.done {
                        v.push(Op::Poll(i as u8, 0));
                        v.push(Op::Poll(i as u8, 1));
                    } else if !s.meta.repolled {
                        v.push(Op::PollDone(i as u8));
                    }
                    v.push(Op::DropFut(i as u8));
                }
            }
        }
        v.push(Op::TryLock);
        for i in 0..self.guards.len() {
            v.push(Op::Unlock(i as u8));
        }
        v
    }

    fn apply(&mut self, op: Op, out: &mut StepOut) {
        self.seq += 1;
        let wakes_before = harness::all_wakes();
        match op {
            Op::Create(i) => {
                let i = i as usize;
                let m = self.mref();
                match lib(|| m.lock()) {
                    Ok(f) => {
                        let mut meta = Meta::default();
                        meta.seen = sample_seen(G, i);
                        self.slots[i] = Some(Slot { fut: Pinned::new(f), meta, wait_seq: 0 });
                    }
                    Err(p) => out.v("C01", "panic", format!("lock() panicked: {}", p)),
                }
            }
            Op::Poll(i, w) => {
                let i = i as usize;
                let order = self.order();
                let was_fresh = fresh(G, i, &self.slots[i].as_ref().unwrap().meta);
                let seen = sample_seen(G, i);
                let waker = harness::waker(wid(G, i, w));
                let s = self.slots[i].as_mut().unwrap();
                let first = !s.meta.polled;
                let r = lib(|| s.fut.pin().poll(&mut Context::from_waker(&waker)));
                s.meta.polled = true;
                s.meta.last = w;
                s.meta.seen = seen;
                match r {
                    Err(p) => {
                        out.v("C01", "panic", format!("poll of slot {} panicked: {}", i, p));
                        out.corrupt = true;
                        s.meta.done = true;
                    }
                    Ok(Poll::Ready(g)) => {
                        out.o("Ready");
                        s.meta.done = true;
                        if self.fair {
                            if first && !order.is_empty() {
                                out.v("C04", "barging", format!("lock future of slot {} completed at its first poll although slots {:?} are waiting", i, order));
                            }
                            if !first && order.first() != Some(&i) {
                                out.v("C04", "overtaking", format!("lock future of slot {} completed although slot {:?} started waiting earlier (wait order {:?})", i, order.first(), order));
                            }
                        }
                        self.on_acquired(g, &format!("lock future of slot {}", i), out);
                    }
                    Ok(Poll::Pending) => {
                        out.o("Pending");
                        if first || (was_fresh && !self.fair) {
                            s.wait_seq = self.seq;
                        }
                    }
                }
            }
            Op::PollDone(i) => {
                let i = i as usize;
                let before = format!("{:?}", self.mutex.verif_snapshot().queues);
                let waker = harness::waker(wid(G, i, 0));
                let s = self.slots[i].as_mut().unwrap();
                let r = lib(|| s.fut.pin().poll(&mut Context::from_waker(&waker)));
                s.meta.repolled = true;
                match r {
                    Err(_) => out.o("panicked"),
                    Ok(Poll::Ready(g)) => {
                        out.v("C17", "poll-after-completion", format!("polling the completed lock future of slot {} yielded a second guard", i));
                        self.on_acquired(g, "a completed lock future polled again", out);
                    }
                    Ok(Poll::Pending) => out.v("C17", "poll-after-completion", format!("polling the completed lock future of slot {} returned Pending instead of panicking", i)),
                }
                let after = format!("{:?}", self.mutex.verif_snapshot().queues);
                if before != after {
                    out.v("C17", "poll-after-completion-changed-state", format!("wait queue changed: {} -> {}", before, after));
                }
            }
            Op::DropFut(i) => {
                let mut s = self.slots[i as usize].take().unwrap();
                let range = s.fut.range();
                if let Err(p) = lib(|| s.fut.kill()) {
                    out.v("C01", "panic", format!("dropping the future of slot {} panicked: {}", i, p));
                    out.corrupt = true;
                }
                s.fut.release_memory_if_requested();
                self.dead.push(range);
                self.graveyard.push(s.fut);
            }
            Op::TryLock => {
                let anyp = !self.order().is_empty();
                let m = self.mref();
                match lib(|| m.try_lock()) {
                    Err(p) => out.v("C01", "panic", format!("try_lock() panicked: {}", p)),
                    Ok(Some(g)) => {
                        out.o("Some");
                        if self.fair && anyp {
                            out.v("C04", "barging", "try_lock() succeeded although lock futures are waiting".to_string());
                        }
                        self.try_guards += 1;
                        self.on_acquired(g, "try_lock()", out);
                    }
                    Ok(None) => out.o("None"),
                }
            }
            Op::Unlock(i) => {
                let g = self.guards.remove(i as usize);
                // `unwind` configurations: the holder of the guard panics, the guard is dropped by
                // the unwinder - an unlock like any other
                let r = if self.unwind { harness::drop_unwinding(g) } else { lib(|| drop(g)) };
                if let Err(p) = r {
                    out.v("C01", "panic", format!("dropping the guard panicked: {}", p));
                }
            }
        }
        let wakes_after = harness::all_wakes();
        let woken: Vec<usize> = (0..harness::MAX_WAKERS).filter(|&w| wakes_after[w] > wakes_before[w]).collect();
        if !woken.is_empty() {
            out.o(&format!("woke{:?}", woken));
        }
        self.invariants(out);
    }

    fn fingerprint(&self) -> Vec<u8> {
        let snap = self.mutex.verif_snapshot();
        let mut v = vec![snap.scalars[1] as u8, self.guards.len() as u8];
        let order = self.order();
        let mut recs: Vec<Vec<u8>> = vec![];
        for i in 0..self.k {
            match &self.slots[i] {
                None => recs.push(vec![255]),
                Some(s) => {
                    let mut r = vec![s.meta.polled as u8, s.meta.done as u8, s.meta.repolled as u8];
                    if s.meta.pending() {
                        r.push(s.meta.last);
                        r.push(fresh(G, i, &s.meta) as u8);
                        r.push(stale_wake(G, i, &s.meta) as u8);
                        r.push(order.iter().position(|&x| x == i).unwrap() as u8);
                    } else {
                        r.extend([9, 9, 9, 9]);
                    }
                    let n = s.fut.get().verif_node();
                    r.push(n.tag);
                    r.push(structcheck::waker_code(n.waker, G, i));
                    r.push(snap.queues[0].iter().position(|q| q.addr == n.addr).map_or(200, |p| p as u8));
                    r.push(s.fut.get().is_terminated() as u8);
                    r.extend(harness::norm(&s.fut.get().verif_node_debug()));
                    recs.push(r);
                }
            }
        }
        if self.symmetry {
            recs.sort();
        }
        for r in recs {
            v.extend(r);
            v.push(253);
        }
        v.push(snap.queues[0].len() as u8);
        v.extend(harness::norm(&self.mutex.verif_debug()));
        v
    }

    fn finish(mut self, out: &mut StepOut) {
        let mut completed_order: Vec<usize> = vec![];
        let arrival = self.order();
        let mut rounds = 0;
        loop {
            rounds += 1;
            let gs: Vec<_> = self.guards.drain(..).collect();
            for g in gs {
                let _ = lib(|| drop(g));
            }
            let woken: Vec<usize> = self.order().into_iter().filter(|&j| fresh(G, j, &self.slots[j].as_ref().unwrap().meta)).collect();
            if woken.is_empty() || rounds > 64 {
                break;
            }
            for j in woken {
                let last = self.slots[j].as_ref().unwrap().meta.last;
                let mut o = StepOut::default();
                self.apply(Op::Poll(j as u8, last), &mut o);
                if self.slots[j].as_ref().unwrap().meta.done {
                    completed_order.push(j);
                }
                for v in o.viol {
                    if v.prop == "C03" || v.prop == "C04" {
                        out.viol.push(v);
                    }
                }
                let gs: Vec<_> = self.guards.drain(..).collect();
                for g in gs {
                    let _ = lib(|| drop(g));
                }
            }
        }
        let left = self.order();
        if !left.is_empty() {
            out.v("C03", "drain-never-completes", format!("after all guards were dropped and every woken future polled again, lock futures {:?} are still pending", left));
        } else if self.fair && completed_order != arrival {
            out.v("C04", "drain-order", format!("fair mutex: pending futures arrived in order {:?} but completed in order {:?}", arrival, completed_order));
        }
        let _ = harness::take_alloc_counts();
    }
}
