//! Harness utilities shared by all E-SEQ systems: counting allocator, counting
//! non-allocating wakers, drop-counting tagged values, quarantined storage for
//! pinned futures, panic capture.
//!
//! Everything here is thread-local: every explorer worker replays histories on
//! its own primitive, its own wakers and its own counters.

use std::alloc::{GlobalAlloc, Layout, System as SysAlloc};
use std::cell::{Cell, RefCell};
use std::mem::MaybeUninit;
use std::pin::Pin;
use std::task::{RawWaker, RawWakerVTable, Waker};

// ---------------------------------------------------------------- allocator

pub struct Counting;

thread_local! {
    static ARMED: Cell<bool> = const { Cell::new(false) };
    static NALLOC: Cell<u64> = const { Cell::new(0) };
    static NFREE: Cell<u64> = const { Cell::new(0) };
}

unsafe impl GlobalAlloc for Counting {
    unsafe fn alloc(&self, l: Layout) -> *mut u8 {
        let _ = ARMED.try_with(|a| {
            if a.get() {
                let _ = NALLOC.try_with(|n| n.set(n.get() + 1));
            }
        });
        SysAlloc.alloc(l)
    }
    unsafe fn dealloc(&self, p: *mut u8, l: Layout) {
        let _ = ARMED.try_with(|a| {
            if a.get() {
                let _ = NFREE.try_with(|n| n.set(n.get() + 1));
            }
        });
        SysAlloc.dealloc(p, l)
    }
    unsafe fn realloc(&self, p: *mut u8, l: Layout, new_size: usize) -> *mut u8 {
        let _ = ARMED.try_with(|a| {
            if a.get() {
                let _ = NALLOC.try_with(|n| n.set(n.get() + 1));
                let _ = NFREE.try_with(|n| n.set(n.get() + 1));
            }
        });
        SysAlloc.realloc(p, l, new_size)
    }
}

/// (allocations, frees) counted inside armed regions since the last call
pub fn take_alloc_counts() -> (u64, u64) {
    let r = (NALLOC.with(|n| n.get()), NFREE.with(|n| n.get()));
    NALLOC.with(|n| n.set(0));
    NFREE.with(|n| n.set(0));
    r
}

/// Runs a library call: allocation counting armed, panics captured.
/// Returns Err(panic message) if the call panicked.
pub fn lib<R>(f: impl FnOnce() -> R) -> Result<R, String> {
    ARMED.with(|a| a.set(true));
    let r = std::panic::catch_unwind(std::panic::AssertUnwindSafe(f));
    ARMED.with(|a| a.set(false));
    if r.is_err() {
        // the panic machinery itself allocates (payload box); a panic is
        // reported on its own, do not also count it as a run-time allocation
        take_alloc_counts();
    }
    r.map_err(|e| {
        if let Some(s) = e.downcast_ref::<&str>() {
            s.to_string()
        } else if let Some(s) = e.downcast_ref::<String>() {
            s.clone()
        } else {
            "panic with non-string payload".to_string()
        }
    })
}

pub fn install_silent_panic_hook() {
    if std::env::var("FIVERIF_PANIC_VERBOSE").is_ok() {
        return;
    }
    std::panic::set_hook(Box::new(|_| {}));
}

// ------------------------------------------------------------------ wakers

pub const MAX_WAKERS: usize = 64;
pub const WAKELOG_CAP: usize = 512;

thread_local! {
    static WAKES: [Cell<u32>; MAX_WAKERS] = const { [const { Cell::new(0) }; MAX_WAKERS] };
    static WAKELOG: RefCell<([u8; WAKELOG_CAP], usize)> = const { RefCell::new(([0; WAKELOG_CAP], 0)) };
}

fn note_wake(id: usize) {
    let _ = WAKES.try_with(|w| {
        if id < MAX_WAKERS {
            w[id].set(w[id].get() + 1)
        }
    });
    let _ = WAKELOG.try_with(|l| {
        let mut l = l.borrow_mut();
        let n = l.1;
        if n < WAKELOG_CAP {
            l.0[n] = id as u8;
            l.1 = n + 1;
        }
    });
}

unsafe fn vt_clone(p: *const ()) -> RawWaker {
    RawWaker::new(p, &VTABLE)
}
unsafe fn vt_wake(p: *const ()) {
    note_wake(p as usize)
}
unsafe fn vt_drop(_: *const ()) {}
static VTABLE: RawWakerVTable = RawWakerVTable::new(vt_clone, vt_wake, vt_wake, vt_drop);

// Alternative waker shape (configuration parameter `altw`): the second waker of a slot (even id)
// has the SAME data pointer as the first one and a different vtable, instead of the same vtable
// and a different data pointer. `Waker::will_wake` tells them apart either way; an implementation
// that compares only the data pointers, or only the vtables, refreshes the stored waker in one of
// the two modes only.
unsafe fn vta_clone(p: *const ()) -> RawWaker {
    RawWaker::new(p, &VTABLE_ALT)
}
unsafe fn vta_wake(p: *const ()) {
    note_wake(p as usize + 1)
}
static VTABLE_ALT: RawWakerVTable = RawWakerVTable::new(vta_clone, vta_wake, vta_wake, vt_drop);
thread_local! {
    static ALT_WAKERS: Cell<bool> = const { Cell::new(false) };
}
pub fn set_alt_wakers(on: bool) {
    ALT_WAKERS.with(|a| a.set(on));
}
pub fn alt_wakers() -> bool {
    ALT_WAKERS.with(|a| a.get())
}
/// code of a vtable address in canonical Debug renderings (None: not one of the harness vtables)
pub fn vtable_code(addr: usize) -> Option<u8> {
    if addr == &VTABLE as *const RawWakerVTable as usize {
        Some(240)
    } else if addr == &VTABLE_ALT as *const RawWakerVTable as usize {
        Some(241)
    } else {
        None
    }
}

/// Non-allocating waker with identity `id` (1..MAX_WAKERS). `Waker::data()`
/// of every clone equals `id` (in `altw` mode: `id - 1` for even ids, see above).
pub fn waker(id: usize) -> Waker {
    assert!(id > 0 && id < MAX_WAKERS);
    if alt_wakers() && id % 2 == 0 {
        return unsafe { Waker::from_raw(RawWaker::new((id - 1) as *const (), &VTABLE_ALT)) };
    }
    unsafe { Waker::from_raw(RawWaker::new(id as *const (), &VTABLE)) }
}

/// Waker id of (group, slot, which)
pub fn wid(group: usize, slot: usize, which: u8) -> usize {
    1 + (group * 8 + slot) * 2 + which as usize
}

pub fn wakes(id: usize) -> u32 {
    WAKES.with(|w| w[id].get())
}

pub fn all_wakes() -> [u32; MAX_WAKERS] {
    let mut r = [0; MAX_WAKERS];
    WAKES.with(|w| {
        for i in 0..MAX_WAKERS {
            r[i] = w[i].get()
        }
    });
    r
}

pub fn wakelog_len() -> usize {
    WAKELOG.with(|l| l.borrow().1)
}

/// The wake log entries from position `from` on
pub fn wakelog_since(from: usize) -> Vec<u8> {
    WAKELOG.with(|l| {
        let l = l.borrow();
        l.0[from.min(l.1)..l.1].to_vec()
    })
}

// ------------------------------------------------------------ tagged values

pub const MAX_TAGS: usize = 256;
thread_local! {
    static DROPS: [Cell<u8>; MAX_TAGS] = const { [const { Cell::new(0) }; MAX_TAGS] };
}

/// A value with a unique tag; dropping it is counted per tag.
#[derive(Debug)]
pub struct Tag(pub u8);
impl Drop for Tag {
    fn drop(&mut self) {
        let t = self.0 as usize;
        let _ = DROPS.try_with(|d| {
            if t < MAX_TAGS {
                d[t].set(d[t].get().saturating_add(1))
            }
        });
    }
}
pub fn drops(tag: u8) -> u8 {
    DROPS.with(|d| d[tag as usize].get())
}
pub fn tag_of(t: &Tag) -> u64 {
    t.0 as u64
}

/// A cloneable tagged value (broadcast channels): clones share the tag and are
/// not drop counted.
#[derive(Debug, Clone, PartialEq, Eq)]
pub struct CTag(pub u8);
pub fn ctag_of(t: &CTag) -> u64 {
    t.0 as u64
}

/// Resets all thread-local harness state (start of a replay)
pub fn reset_thread_state() {
    WAKES.with(|w| {
        for c in w.iter() {
            c.set(0)
        }
    });
    WAKELOG.with(|l| l.borrow_mut().1 = 0);
    DROPS.with(|d| {
        for c in d.iter() {
            c.set(0)
        }
    });
    ARMED.with(|a| a.set(false));
    take_alloc_counts();
    take_teardown_panic();
    let old: Vec<Box<dyn std::any::Any>> = DEFERRED_FREE.with(|d| std::mem::take(&mut *d.borrow_mut()));
    drop(old);
}

// -------------------------------------------------- storage of pinned futures

/// When set, the memory of a dropped future is freed immediately (valgrind /
/// Miri mode: a later access by the library is an invalid read/write).
/// Otherwise it is quarantined until the system is torn down, so that the
/// structural check can inspect a dangling queue without touching freed
/// memory.
static FREE_ON_DROP: std::sync::atomic::AtomicBool = std::sync::atomic::AtomicBool::new(false);
pub fn set_free_on_drop(v: bool) {
    FREE_ON_DROP.store(v, std::sync::atomic::Ordering::SeqCst)
}
pub fn free_on_drop() -> bool {
    FREE_ON_DROP.load(std::sync::atomic::Ordering::SeqCst)
}

/// Heap storage for a pinned future whose destructor can be run while the
/// memory stays allocated.
pub struct Pinned<F: 'static> {
    mem: Option<Box<MaybeUninit<F>>>,
    alive: bool,
}

impl<F: 'static> Pinned<F> {
    pub fn new(f: F) -> Self {
        Pinned { mem: Some(Box::new(MaybeUninit::new(f))), alive: true }
    }
    pub fn is_alive(&self) -> bool {
        self.alive
    }
    pub fn get(&self) -> &F {
        assert!(self.alive);
        unsafe { self.mem.as_ref().unwrap().assume_init_ref() }
    }
    pub fn pin(&mut self) -> Pin<&mut F> {
        assert!(self.alive);
        unsafe { Pin::new_unchecked(self.mem.as_mut().unwrap().assume_init_mut()) }
    }
    /// Address range of the storage
    pub fn range(&self) -> (usize, usize) {
        match &self.mem {
            Some(m) => {
                let a = m.as_ptr() as usize;
                (a, a + std::mem::size_of::<F>().max(1))
            }
            None => (0, 0),
        }
    }
    /// Runs the destructor in place (a library call: must be wrapped in `lib`
    /// by the caller). Frees the memory if FREE_ON_DROP is set.
    pub fn kill(&mut self) {
        if self.alive {
            self.alive = false;
            unsafe { std::ptr::drop_in_place(self.mem.as_mut().unwrap().as_mut_ptr()) };
        }
    }
    pub fn release_memory_if_requested(&mut self) {
        if !self.alive && free_on_drop() {
            self.mem = None;
        }
    }
}

thread_local! {
    static TEARDOWN_PANIC: RefCell<Option<String>> = const { RefCell::new(None) };
}
/// message of a panic raised by a future's destructor while a system was torn down
pub fn take_teardown_panic() -> Option<String> {
    TEARDOWN_PANIC.with(|t| t.borrow_mut().take())
}

thread_local! {
    /// storage of futures whose owner was torn down: freed at the start of the next replay,
    /// so that the teardown of a whole system never touches freed memory of a sibling future
    static DEFERRED_FREE: RefCell<Vec<Box<dyn std::any::Any>>> = const { RefCell::new(Vec::new()) };
}

impl<F: 'static> Drop for Pinned<F> {
    fn drop(&mut self) {
        if self.alive {
            let earlier_panic = TEARDOWN_PANIC.with(|t| t.borrow().is_some());
            if earlier_panic {
                // a sibling's destructor already panicked during this teardown: the structure
                // is suspect, do not run further destructors on it (leak this future)
                self.alive = false;
            } else if let Err(e) = std::panic::catch_unwind(std::panic::AssertUnwindSafe(|| self.kill())) {
                // a panicking destructor must not escape: several futures are dropped in a row
                // when a system is torn down, and a second panic during unwinding aborts the process
                let msg = e.downcast_ref::<&str>().map(|s| s.to_string()).or_else(|| e.downcast_ref::<String>().cloned()).unwrap_or_default();
                TEARDOWN_PANIC.with(|t| *t.borrow_mut() = Some(msg));
            }
        }
        if let Some(m) = self.mem.take() {
            let _ = DEFERRED_FREE.try_with(|d| d.borrow_mut().push(m as Box<dyn std::any::Any>));
        }
    }
}

// ------------------------------------------------------------ slot metadata

/// Harness-side bookkeeping of one future slot
#[derive(Clone, Debug, Default)]
pub struct Meta {
    pub polled: bool,
    pub done: bool,
    /// which waker (0 = A, 1 = B) was used by the latest poll
    pub last: u8,
    /// wake counters of both wakers, sampled right before the latest poll
    pub seen: [u32; 2],
    /// the future was completed and then polled again (C17), panicked as expected
    pub repolled: bool,
}

impl Meta {
    pub fn pending(&self) -> bool {
        self.polled && !self.done
    }
}

/// "woken through the waker of its latest poll since that poll"
pub fn fresh(group: usize, slot: usize, m: &Meta) -> bool {
    m.pending() && wakes(wid(group, slot, m.last)) > m.seen[m.last as usize]
}

/// a wake-up through a waker that is not the one of the latest poll
pub fn stale_wake(group: usize, slot: usize, m: &Meta) -> bool {
    let o = 1 - m.last;
    m.pending() && wakes(wid(group, slot, o)) > m.seen[o as usize]
}

pub fn sample_seen(group: usize, slot: usize) -> [u32; 2] {
    [wakes(wid(group, slot, 0)), wakes(wid(group, slot, 1))]
}

// ---------------------------------------------- Debug renderings in fingerprints

/// Canonical form of a `Debug` rendering, compressed to 128 bits: every hexadecimal address
/// (`0x...`) is replaced by the index of its first occurrence in the string, so that two renderings
/// have the same canonical form iff they have the same shape and the same plain values; the
/// canonical form then enters the fingerprint as two independently salted 64-bit SipHash values
/// (keeping the full text made the quick tier 3x slower through key size alone).
pub fn norm(s: &str) -> [u8; 16] {
    let mut seen: Vec<usize> = Vec::with_capacity(16);
    norm_with(s, &mut |addr| match seen.iter().position(|a| *a == addr) {
        _ if vtable_code(addr).is_some() => vtable_code(addr).unwrap(),
        Some(k) => k as u8,
        None => {
            seen.push(addr);
            (seen.len() - 1) as u8
        }
    })
}

/// As `norm`, with the caller deciding what an address is rendered as (e.g. the index of the
/// harness node that lives there, so that *which* node a hidden pointer field refers to is part
/// of the canonical form).
pub fn norm_with(s: &str, name: &mut dyn FnMut(usize) -> u8) -> [u8; 16] {
    use std::hash::Hasher;
    let b = s.as_bytes();
    let mut h1 = std::collections::hash_map::DefaultHasher::new();
    let mut h2 = std::collections::hash_map::DefaultHasher::new();
    h2.write_u64(0x9e37_79b9_7f4a_7c15);
    let mut i = 0;
    let mut start = 0;
    while i < b.len() {
        if b[i] == b'0' && i + 1 < b.len() && b[i + 1] == b'x' {
            let mut j = i + 2;
            let mut addr: usize = 0;
            while j < b.len() && b[j].is_ascii_hexdigit() {
                addr = addr.wrapping_mul(16).wrapping_add((b[j] as char).to_digit(16).unwrap() as usize);
                j += 1;
            }
            let idx = name(addr);
            h1.write(&b[start..i]);
            h2.write(&b[start..i]);
            h1.write(&[b'#', idx]);
            h2.write(&[b'#', idx]);
            i = j;
            start = j;
        } else {
            i += 1;
        }
    }
    h1.write(&b[start..]);
    h2.write(&b[start..]);
    let mut out = [0u8; 16];
    out[..8].copy_from_slice(&h1.finish().to_le_bytes());
    out[8..].copy_from_slice(&h2.finish().to_le_bytes());
    out
}

/// parking_lot's raw mutex with a `Debug` impl (the Debug-rendering hooks of the shared flavours
/// need `MutexType: Debug`); behaviour is delegated unchanged
pub struct PLD(parking_lot::RawMutex);
impl std::fmt::Debug for PLD {
    fn fmt(&self, f: &mut std::fmt::Formatter) -> std::fmt::Result {
        f.write_str("parking_lot::RawMutex")
    }
}
unsafe impl lock_api::RawMutex for PLD {
    #[allow(clippy::declare_interior_mutable_const)]
    const INIT: PLD = PLD(<parking_lot::RawMutex as lock_api::RawMutex>::INIT);
    type GuardMarker = <parking_lot::RawMutex as lock_api::RawMutex>::GuardMarker;
    fn lock(&self) {
        lock_api::RawMutex::lock(&self.0)
    }
    fn try_lock(&self) -> bool {
        lock_api::RawMutex::try_lock(&self.0)
    }
    unsafe fn unlock(&self) {
        lock_api::RawMutex::unlock(&self.0)
    }
}

// ---------------------------------------------- drops during unwinding

struct UnwindMarker;

/// Drops `x` while the thread is unwinding from a panic (`std::thread::panicking()` is true inside
/// its `Drop`), as happens to a guard or releaser whose holder panics. The panic is raised with
/// `resume_unwind`, which neither runs the panic hook nor prints. A panic raised by the destructor
/// itself would be a double panic (abort), as in real code. Not counted for C18 (the unwinder
/// allocates its exception object).
pub fn drop_unwinding<T>(x: T) -> Result<(), String> {
    let r = std::panic::catch_unwind(std::panic::AssertUnwindSafe(move || {
        let _x = x;
        std::panic::resume_unwind(Box::new(UnwindMarker));
    }));
    let _ = take_alloc_counts();
    match r {
        Err(e) if e.is::<UnwindMarker>() => Ok(()),
        Err(e) => Err(e.downcast_ref::<&str>().map(|s| s.to_string()).or_else(|| e.downcast_ref::<String>().cloned()).unwrap_or_default()),
        Ok(()) => Ok(()),
    }
}

// ---------------------------------------------- a waker whose clone() panics

pub const PANIC_WAKER_MSG: &str = "verif: this waker panics in clone()";
unsafe fn vtp_clone(_p: *const ()) -> RawWaker {
    panic!("{}", PANIC_WAKER_MSG)
}
unsafe fn vtp_wake(_p: *const ()) {}
static VTABLE_PANIC: RawWakerVTable = RawWakerVTable::new(vtp_clone, vtp_wake, vtp_wake, vt_drop);
/// A waker that unwinds out of `clone()` (legal for a `RawWaker`: its contract says nothing about
/// panics). A poll that has to store it unwinds; afterwards the future must still be droppable
/// without leaving its wait node behind (C01).
pub fn panicking_waker() -> Waker {
    unsafe { Waker::from_raw(RawWaker::new(63 as *const (), &VTABLE_PANIC)) }
}
