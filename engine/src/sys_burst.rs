//! E-SEQ "burst" systems: N futures (N = 0..n_max, default 40) are parked on a
//! primitive, then one mass wake-up operation is fired (set / release(N) /
//! close / send / check_expirations), then every future is polled again.
//! The family `Register^N ; Fire(v) ; PollAll` is enumerated for every N and
//! every variant v. It covers the "for any number of concurrent waiters"
//! clause of C18 (thresholds such as "more than 8 waiters woken at once")
//! and the "wakes all / nothing due missed" clauses of C06, C11-C15 for
//! large N, which the fixpoint systems (k <= 7) cannot reach.

use crate::core::{Cfg, StepOut, System};
use crate::harness::{self, lib, CTag, Tag};
use futures_intrusive::buffer::FixedHeapBuf;
use futures_intrusive::channel::{GenericChannel, GenericOneshotBroadcastChannel, GenericOneshotChannel, GenericStateBroadcastChannel, StateId};
use futures_intrusive::sync::{GenericManualResetEvent, GenericSemaphore};
use futures_intrusive::timer::{GenericTimerService, MockClock, Timer};
use std::future::Future;
use std::pin::Pin;
use std::task::{Context, Poll};

type PL = harness::PLD;
type DynFut = Pin<Box<dyn Future<Output = u8>>>;

thread_local! {
    static CLOCK: &'static MockClock = Box::leak(Box::new(MockClock::new()));
}
fn clock() -> &'static MockClock {
    CLOCK.with(|c| *c)
}

/// A legal monotonic clock that advances by one millisecond per reading (kind 9): a timer service
/// that reads the clock several times during one call sees different values.
pub struct TickClock(std::sync::atomic::AtomicU64);
impl futures_intrusive::timer::Clock for TickClock {
    fn now(&self) -> u64 {
        self.0.fetch_add(1, std::sync::atomic::Ordering::Relaxed)
    }
}
thread_local! {
    static TICK: &'static TickClock = Box::leak(Box::new(TickClock(std::sync::atomic::AtomicU64::new(0))));
}
fn tick() -> &'static TickClock {
    TICK.with(|c| *c)
}

enum Prim {
    Event(Box<GenericManualResetEvent<PL>>),
    Sem(Box<GenericSemaphore<PL>>),
    MpmcRecv(Box<GenericChannel<PL, Tag, FixedHeapBuf<Tag>>>),
    MpmcSend(Box<GenericChannel<PL, Tag, FixedHeapBuf<Tag>>>),
    Oneshot(Box<GenericOneshotChannel<PL, Tag>>),
    Bcast(Box<GenericOneshotBroadcastChannel<PL, CTag>>),
    State(Box<GenericStateBroadcastChannel<PL, CTag>>),
    Timer(Box<GenericTimerService<PL>>),
    /// mutex held by a guard (dropped by Fire); the woken futures lock and unlock in a chain
    Mutex(Box<futures_intrusive::sync::GenericMutex<PL, u32>>, Option<futures_intrusive::sync::GenericMutexGuard<'static, PL, u32>>),
}

#[derive(Clone, Copy, Debug, PartialEq)]
pub enum Op {
    Register,
    Fire(u8),
    PollAll,
}

pub struct Sys {
    futs: Vec<Option<DynFut>>,
    // NOTE: Prim::Mutex holds its guard next to the mutex; the guard is declared after the Box in
    // the tuple but is always taken (dropped) before the mutex by Fire or by Drop below
    prim: Prim,
    kind: u8,
    n_max: usize,
    fired: Option<u8>,
    polled_after: bool,
    prop: &'static str,
    /// chain mode (script system): timers get distinct deadlines 1, 2, 3, ...
    chain: bool,
}

const WAKER: usize = 1;

// result codes of the wrapped futures
const R_UNIT: u8 = 0;
const R_SOME: u8 = 1;
const R_NONE: u8 = 2;
const R_OK: u8 = 3;
const R_ERR: u8 = 4;

macro_rules! stat {
    ($b:expr, $t:ty) => {
        unsafe { &*(&**$b as *const $t) }
    };
}

impl Sys {
    fn variants(&self) -> u8 {
        match self.kind {
            4 | 5 | 6 => 2, // send or close
            _ => 1,
        }
    }

    fn make_future(&self) -> DynFut {
        match &self.prim {
            Prim::Event(e) => {
                let e: &'static GenericManualResetEvent<PL> = stat!(e, GenericManualResetEvent<PL>);
                let f = e.wait();
                Box::pin(async move {
                    f.await;
                    R_UNIT
                })
            }
            Prim::Sem(s) => {
                let s: &'static GenericSemaphore<PL> = stat!(s, GenericSemaphore<PL>);
                let f = s.acquire(1);
                Box::pin(async move {
                    let mut r = f.await;
                    r.disarm();
                    R_UNIT
                })
            }
            Prim::MpmcRecv(c) => {
                let c: &'static GenericChannel<PL, Tag, FixedHeapBuf<Tag>> = stat!(c, GenericChannel<PL, Tag, FixedHeapBuf<Tag>>);
                let f = c.receive();
                Box::pin(async move {
                    match f.await {
                        Some(_) => R_SOME,
                        None => R_NONE,
                    }
                })
            }
            Prim::MpmcSend(c) => {
                let c: &'static GenericChannel<PL, Tag, FixedHeapBuf<Tag>> = stat!(c, GenericChannel<PL, Tag, FixedHeapBuf<Tag>>);
                let f = c.send(Tag(0));
                Box::pin(async move {
                    match f.await {
                        Ok(()) => R_OK,
                        Err(_) => R_ERR,
                    }
                })
            }
            Prim::Oneshot(c) => {
                let c: &'static GenericOneshotChannel<PL, Tag> = stat!(c, GenericOneshotChannel<PL, Tag>);
                let f = c.receive();
                Box::pin(async move {
                    match f.await {
                        Some(_) => R_SOME,
                        None => R_NONE,
                    }
                })
            }
            Prim::Bcast(c) => {
                let c: &'static GenericOneshotBroadcastChannel<PL, CTag> = stat!(c, GenericOneshotBroadcastChannel<PL, CTag>);
                let f = c.receive();
                Box::pin(async move {
                    match f.await {
                        Some(_) => R_SOME,
                        None => R_NONE,
                    }
                })
            }
            Prim::State(c) => {
                let c: &'static GenericStateBroadcastChannel<PL, CTag> = stat!(c, GenericStateBroadcastChannel<PL, CTag>);
                let f = c.receive(StateId::new());
                Box::pin(async move {
                    match f.await {
                        Some(_) => R_SOME,
                        None => R_NONE,
                    }
                })
            }
            Prim::Timer(t) => {
                let t: &'static GenericTimerService<PL> = stat!(t, GenericTimerService<PL>);
                let f = Timer::deadline(t, if self.kind == 9 { 1_000_000 } else if self.chain { 1 + self.futs.len() as u64 } else { 1 });
                Box::pin(async move {
                    f.await;
                    R_UNIT
                })
            }
            Prim::Mutex(m, _) => {
                let m: &'static futures_intrusive::sync::GenericMutex<PL, u32> = stat!(m, futures_intrusive::sync::GenericMutex<PL, u32>);
                let f = m.lock();
                Box::pin(async move {
                    let mut g = f.await;
                    *g += 1;
                    drop(g);
                    R_UNIT
                })
            }
        }
    }

    fn allocs(&self, what: &str, out: &mut StepOut) {
        let (na, nf) = harness::take_alloc_counts();
        if na + nf > 0 {
            out.p("C18", "alloc-in-call", format!("{} allocations / {} frees inside {} with {} parked futures", na, nf, what, self.futs.iter().flatten().count()));
        }
    }
}

impl Drop for Sys {
    fn drop(&mut self) {
        self.futs.clear();
        if let Prim::Mutex(_, g) = &mut self.prim {
            drop(g.take());
        }
    }
}

impl System for Sys {
    type Op = Op;

    fn new(cfg: &Cfg) -> Self {
        let kind = cfg.get("kind") as u8;
        clock().set_time(0);
        let (prim, prop): (Prim, &'static str) = match kind {
            0 => (Prim::Event(Box::new(GenericManualResetEvent::new(false))), "C14"),
            1 => (Prim::Sem(Box::new(GenericSemaphore::new(cfg.flag("fair"), 0))), "C06"),
            2 => (Prim::MpmcRecv(Box::new(GenericChannel::with_capacity(1))), "C11"),
            3 => (Prim::MpmcSend(Box::new(GenericChannel::with_capacity(0))), "C11"),
            4 => (Prim::Oneshot(Box::new(GenericOneshotChannel::new())), "C12"),
            5 => (Prim::Bcast(Box::new(GenericOneshotBroadcastChannel::new())), "C12"),
            6 => (Prim::State(Box::new(GenericStateBroadcastChannel::new())), "C13"),
            7 => (Prim::Timer(Box::new(GenericTimerService::new(clock()))), "C15"),
            9 => {
                tick().0.store(0, std::sync::atomic::Ordering::Relaxed);
                (Prim::Timer(Box::new(GenericTimerService::new(tick()))), "C15")
            }
            8 => {
                let m = Box::new(futures_intrusive::sync::GenericMutex::<PL, u32>::new(0, cfg.flag("fair")));
                let mr: &'static futures_intrusive::sync::GenericMutex<PL, u32> = stat!(&m, futures_intrusive::sync::GenericMutex<PL, u32>);
                let g = mr.try_lock().expect("fresh mutex");
                (Prim::Mutex(m, Some(g)), "C03")
            }
            _ => panic!("unknown burst kind"),
        };
        // single sends / receives that serve parked futures are C10's business, close() is C11's
        let prop = if cfg.flag("chain") && (kind == 2 || kind == 3) { "C10" } else { prop };
        let n_max = cfg.get_or("n", 40) as usize;
        let mut futs = Vec::with_capacity(n_max + 1);
        futs.clear();
        Sys { futs, prim, kind, n_max, fired: None, polled_after: false, prop, chain: cfg.flag("chain") }
    }

    fn enabled(&self) -> Vec<Op> {
        let mut v = vec![];
        match self.fired {
            None => {
                if self.futs.len() < self.n_max {
                    v.push(Op::Register);
                }
                for x in 0..self.variants() {
                    v.push(Op::Fire(x));
                }
            }
            Some(_) => {
                if !self.polled_after {
                    v.push(Op::PollAll);
                }
            }
        }
        v
    }

    fn apply(&mut self, op: Op, out: &mut StepOut) {
        let waker = harness::waker(WAKER);
        if let Prim::Timer(_) = self.prim {
            clock().set_time(if self.fired.is_some() { 1 } else { 0 });
        }
        match op {
            Op::Register => {
                let mut f = match lib(|| self.make_future()) {
                    Ok(f) => f,
                    Err(p) => {
                        out.v("C01", "panic", format!("creating a future panicked: {}", p));
                        return;
                    }
                };
                // the Box of the wrapper future is the harness' allocation
                let _ = harness::take_alloc_counts();
                match lib(|| f.as_mut().poll(&mut Context::from_waker(&waker))) {
                    Err(p) => {
                        out.v("C01", "panic", format!("first poll panicked: {}", p));
                        out.corrupt = true;
                    }
                    Ok(Poll::Ready(r)) => out.v(self.prop, "burst-early-completion", format!("future number {} completed at its first poll with result code {} although nothing was released / sent / set / expired", self.futs.len(), r)),
                    Ok(Poll::Pending) => out.o("Pending"),
                }
                self.allocs("the first poll of a future", out);
                self.futs.push(Some(f));
            }
            Op::Fire(v) => {
                let n = self.futs.len();
                let w0 = harness::wakes(WAKER);
                let r = match &self.prim {
                    Prim::Event(e) => lib(|| e.set()),
                    Prim::Sem(s) => lib(|| s.release(n)),
                    Prim::MpmcRecv(c) | Prim::MpmcSend(c) => lib(|| {
                        c.close();
                    }),
                    Prim::Oneshot(c) => lib(|| {
                        if v == 0 {
                            let _ = c.send(Tag(1));
                        } else {
                            c.close();
                        }
                    }),
                    Prim::Bcast(c) => lib(|| {
                        if v == 0 {
                            let _ = c.send(CTag(1));
                        } else {
                            c.close();
                        }
                    }),
                    Prim::State(c) => lib(|| {
                        if v == 0 {
                            let _ = c.send(CTag(1));
                        } else {
                            c.close();
                        }
                    }),
                    Prim::Timer(t) => {
                        clock().set_time(1);
                        if self.kind == 9 {
                            tick().0.store(2_000_000, std::sync::atomic::Ordering::Relaxed);
                        }
                        lib(|| t.check_expirations())
                    }
                    Prim::Mutex(_, _) => Ok(()),
                };
                if let Prim::Mutex(_, g) = &mut self.prim {
                    let g = g.take();
                    if let Err(p) = lib(|| drop(g)) {
                        out.v("C01", "panic", format!("dropping the guard panicked: {}", p));
                    }
                }
                if let Err(p) = r {
                    out.v("C01", "panic", format!("the mass wake-up operation panicked with {} parked futures: {}", n, p));
                    out.corrupt = true;
                }
                self.allocs("the mass wake-up operation", out);
                let woken = (harness::wakes(WAKER) - w0) as usize;
                // a fair semaphore wakes only the head; everything else wakes all parked futures
                let expect = match (&self.prim, n) {
                    (_, 0) => 0,
                    (Prim::Sem(_), _) if woken >= 1 && woken < n => woken,
                    (Prim::Mutex(_, _), _) => 1,
                    _ => n,
                };
                if woken < expect {
                    out.p(self.prop, "burst-not-all-woken", format!("{} futures were parked, the operation invoked only {} wakers", n, woken));
                }
                out.o(&format!("woken={}", woken.min(n)));
                self.fired = Some(v);
            }
            Op::PollAll => {
                let n = self.futs.len();
                let mut pending = vec![];
                let mut somes = 0;
                for (i, slot) in self.futs.iter_mut().enumerate() {
                    if i % 512 == 0 {
                        crate::core::heartbeat();
                    }
                    let f = slot.as_mut().unwrap();
                    match lib(|| f.as_mut().poll(&mut Context::from_waker(&waker))) {
                        Err(p) => {
                            out.v("C01", "panic", format!("poll of future {} after the mass wake-up panicked: {}", i, p));
                            out.corrupt = true;
                            break;
                        }
                        Ok(Poll::Pending) => pending.push(i),
                        Ok(Poll::Ready(r)) => {
                            if r == R_SOME {
                                somes += 1;
                            }
                        }
                    }
                }
                self.allocs("the polls after the mass wake-up", out);
                if !pending.is_empty() {
                    out.v(self.prop, "burst-still-pending", format!("{} futures were parked before the operation; after it futures {:?} are still pending when polled", n, pending));
                }
                let fired = self.fired.unwrap();
                let want_some = match (&self.prim, fired) {
                    (Prim::Oneshot(_), 0) => n.min(1),
                    (Prim::Bcast(_), 0) | (Prim::State(_), 0) => n,
                    _ => 0,
                };
                if pending.is_empty() && somes != want_some {
                    out.v(self.prop, "burst-results", format!("{} of {} futures yielded a value, expected {}", somes, n, want_some));
                }
                self.polled_after = true;
                // drop everything: must not allocate either
                let futs: Vec<Option<DynFut>> = std::mem::take(&mut self.futs);
                harness::take_alloc_counts();
                drop(futs);
            }
        }
    }

    fn fingerprint(&self) -> Vec<u8> {
        vec![self.futs.len() as u8, self.fired.map_or(255, |v| v), self.polled_after as u8]
    }

    fn finish(self, _out: &mut StepOut) {}
}


// ---------------------------------------------------------------------------------------------
// Scripted bursts around the ends of the small integer ranges: N in {1, 2, 3, 255, 256, 257,
// 65535, 65536, 65537, 65538}. Replaying `Register^N` from scratch for every N (what the BFS does
// with the system above) is quadratic, so here one operation `Run(i)` performs the whole script
// on a fresh primitive:
//   mass mode  : Register^N ; Fire(v) ; PollAll                       (all kinds, every variant)
//   chain mode : Register^N ; then N single steps, each of which has to wake somebody and let
//                the oldest parked future complete (mutex unlock chain, release(1), try_send,
//                try_receive from parked senders, one timer deadline per clock tick)
// A counter narrower than usize that the implementation keeps next to its queue (a seeded change
// used a saturating u16 "number of waiters") is exact below its range and wrong above it.

/// wall-clock budget of one script phase
pub const SCRIPT_WALL_CAP_S: f64 = 20.0;
/// stack of the script thread
pub const SCRIPT_STACK: usize = 256 * 1024;
pub const SCRIPT_SIZES: [usize; 10] = [1, 2, 3, 255, 256, 257, 65535, 65536, 65537, 65538];

#[derive(Clone, Copy, Debug, PartialEq)]
pub enum ScriptOp {
    Run(u8),
}

pub struct Script {
    cfg: Cfg,
    ran: Option<u8>,
    max_idx: usize,
}

impl Script {
    fn run_script(&self, idx: u8, out: &mut StepOut) {
        let n = SCRIPT_SIZES[idx as usize];
        let chain = self.cfg.flag("chain");
        let inner_cfg = self.cfg.with("n", n as i64);
        let variants = if chain { 1 } else { Sys::new(&inner_cfg).variants() };
        for v in 0..variants {
            let mut sys = Sys::new(&inner_cfg);
            let t0 = std::time::Instant::now();
            for reg in 0..n {
                if reg % 512 == 0 {
                    crate::core::heartbeat();
                    if t0.elapsed().as_secs_f64() > SCRIPT_WALL_CAP_S {
                        eprintln!("script {} n={} capped after {} registrations ({} s)", self.cfg.label(), n, reg, SCRIPT_WALL_CAP_S);
                        out.o(&format!("n={} CAPPED during registration", n));
                        std::mem::forget(sys);
                        return;
                    }
                }
                let mut o = StepOut::default();
                sys.apply(Op::Register, &mut o);
                if Self::take(o, out) {
                    std::mem::forget(sys);
                    return;
                }
            }
            if chain {
                Self::chain(&mut sys, out);
            } else {
                for op in [Op::Fire(v), Op::PollAll] {
                    let mut o = StepOut::default();
                    sys.apply(op, &mut o);
                    if Self::take(o, out) {
                        break;
                    }
                }
            }
            if !out.viol.is_empty() || out.obs.contains("CAPPED") {
                // a primitive that misbehaved (or whose script was cut short) is not torn down
                std::mem::forget(sys);
                return;
            }
        }
        out.o(&format!("n={} ok", n));
    }

    fn take(inner: StepOut, out: &mut StepOut) -> bool {
        let bad = !inner.viol.is_empty() || inner.corrupt;
        out.viol.extend(inner.viol);
        out.corrupt |= inner.corrupt;
        bad
    }

    fn chain(sys: &mut Sys, out: &mut StepOut) {
        let waker = harness::waker(WAKER);
        let n = sys.futs.len();
        // the mutex is held by a guard: the first step is its release
        if let Prim::Mutex(_, g) = &mut sys.prim {
            let w0 = harness::wakes(WAKER);
            let g = g.take();
            if let Err(p) = lib(|| drop(g)) {
                out.v("C01", "panic", format!("dropping the guard panicked: {}", p));
                return;
            }
            if harness::wakes(WAKER) == w0 {
                out.v(sys.prop, "chain-no-wake", format!("{} lock futures are parked; dropping the guard woke none of them", n));
                return;
            }
        }
        let t0 = std::time::Instant::now();
        for i in 0..n {
            if i % 512 == 0 {
                crate::core::heartbeat();
                if t0.elapsed().as_secs_f64() > SCRIPT_WALL_CAP_S {
                    // a slow (say quadratic) but correct implementation is not a violation: the chain
                    // is cut short and the cut is visible in the observation string / on stderr
                    eprintln!("chain script with {} parked futures capped after {} steps ({} s)", n, i, SCRIPT_WALL_CAP_S);
                    out.o(&format!("CAPPED after {} of {} steps", i, n));
                    let futs: Vec<Option<DynFut>> = std::mem::take(&mut sys.futs);
                    std::mem::forget(futs);
                    return;
                }
            }
            let w0 = harness::wakes(WAKER);
            let step: Result<Result<(), String>, String> = match &sys.prim {
                Prim::Sem(s) => lib(|| {
                    s.release(1);
                    Ok(())
                }),
                Prim::MpmcRecv(c) => lib(|| c.try_send(Tag(1)).map_err(|_| "try_send failed although the buffer is empty".to_string())),
                Prim::MpmcSend(c) => lib(|| c.try_receive().map(|_| ()).map_err(|_| "try_receive failed although a sender is parked".to_string())),
                Prim::Timer(t) => {
                    clock().set_time(1 + i as u64);
                    lib(|| {
                        t.check_expirations();
                        Ok(())
                    })
                }
                Prim::Mutex(_, _) => Ok(Ok(())),
                _ => unreachable!("no chain mode for this kind"),
            };
            match step {
                Err(p) => {
                    out.v("C01", "panic", format!("step {} of {} panicked: {}", i + 1, n, p));
                    out.corrupt = true;
                    return;
                }
                Ok(Err(m)) => {
                    out.v(sys.prop, "chain-step-failed", format!("step {} of {}: {}", i + 1, n, m));
                    return;
                }
                Ok(Ok(())) => {}
            }
            sys.allocs("a single wake-up step", out);
            if !matches!(sys.prim, Prim::Mutex(_, _)) && harness::wakes(WAKER) == w0 {
                out.v(sys.prop, "chain-no-wake", format!("step {} of {}: {} futures are still parked, the operation that serves the oldest of them woke nobody", i + 1, n, n - i));
                return;
            }
            let w1 = harness::wakes(WAKER);
            let f = sys.futs[i].as_mut().unwrap();
            match lib(|| f.as_mut().poll(&mut Context::from_waker(&waker))) {
                Err(p) => {
                    out.v("C01", "panic", format!("poll of future {} panicked: {}", i, p));
                    out.corrupt = true;
                    return;
                }
                Ok(Poll::Pending) => {
                    out.v(sys.prop, "chain-still-pending", format!("step {} of {}: the oldest parked future (number {}) is still pending after the operation that serves it", i + 1, n, i));
                    return;
                }
                Ok(Poll::Ready(_)) => {}
            }
            sys.allocs("the poll that completes a future", out);
            // the mutex future unlocks when it completes: that unlock has to wake the next one
            if matches!(sys.prim, Prim::Mutex(_, _)) && i + 1 < n && harness::wakes(WAKER) == w1 {
                out.v(sys.prop, "chain-no-wake", format!("unlock number {} did not wake any of the {} lock futures that are still parked", i + 2, n - i - 1));
                return;
            }
            if !out.viol.is_empty() {
                return;
            }
        }
        let futs: Vec<Option<DynFut>> = std::mem::take(&mut sys.futs);
        harness::take_alloc_counts();
        drop(futs);
    }
}

impl System for Script {
    type Op = ScriptOp;

    fn new(cfg: &Cfg) -> Self {
        Script { cfg: cfg.clone(), ran: None, max_idx: cfg.get_or("sizes", SCRIPT_SIZES.len() as i64) as usize }
    }

    fn enabled(&self) -> Vec<ScriptOp> {
        if self.ran.is_some() {
            return vec![];
        }
        (0..self.max_idx.min(SCRIPT_SIZES.len())).map(|i| ScriptOp::Run(i as u8)).collect()
    }

    fn apply(&mut self, op: ScriptOp, out: &mut StepOut) {
        // The script runs on a thread of its own with a small stack: everything the harness and
        // the unchanged library do here is iterative and needs a few kilobytes, whereas library
        // code whose recursion depth grows with the number of parked futures overflows it. Rust
        // turns a stack overflow into an abort of the whole process; the name of the thread, which
        // the abort message contains, tells the driver what was running.
        let ScriptOp::Run(idx) = op;
        self.ran = Some(idx);
        let prop = Sys::new(&self.cfg.with("n", 1)).prop;
        let prop = if self.cfg.flag("chain") && (self.cfg.get("kind") == 2 || self.cfg.get("kind") == 3) { "C10" } else { prop };
        // (the thread name is what Rust prints in "thread '...' has overflowed its stack")
        let name = format!("script|{}|{}|{:?}|n={}", prop, self.cfg.label(), op, SCRIPT_SIZES[idx as usize]);
        let this: &Script = self;
        let res = std::thread::scope(|sc| {
            std::thread::Builder::new()
                .name(name)
                .stack_size(SCRIPT_STACK)
                .spawn_scoped(sc, || {
                    let mut o = StepOut::default();
                    this.run_script(idx, &mut o);
                    o
                })
                .expect("spawn script thread")
                .join()
        });
        match res {
            Ok(o) => {
                out.viol.extend(o.viol);
                out.corrupt |= o.corrupt;
                out.o(&o.obs);
            }
            Err(_) => out.v("C01", "panic", "the script thread panicked outside a library call".to_string()),
        }
    }

    fn fingerprint(&self) -> Vec<u8> {
        vec![self.ran.map_or(255, |v| v)]
    }

    fn finish(self, _out: &mut StepOut) {}
}


// ---------------------------------------------------------------------------------------------
// Waker sequences: a single parked future is polled with every sequence of up to four wakers out
// of THREE distinct ones (the fixpoint systems use two per slot), then the operation that serves it
// is performed: the waker of the LAST poll must be invoked. Covers every primitive's future.

#[derive(Clone, Copy, Debug, PartialEq)]
pub enum WakerSeqOp {
    Run(u8),
}
pub struct WakerSeq {
    ran: Option<u8>,
}
const WS_KINDS: [(i64, i64); 11] = [(0, 0), (1, 1), (1, 0), (2, 0), (3, 0), (4, 0), (5, 0), (6, 0), (7, 0), (8, 1), (8, 0)];

fn fire_one(sys: &mut Sys) -> Result<(), String> {
    match &mut sys.prim {
        Prim::Event(e) => lib(|| e.set()),
        Prim::Sem(s) => lib(|| s.release(1)),
        Prim::MpmcRecv(c) => lib(|| {
            let _ = c.try_send(Tag(1));
        }),
        Prim::MpmcSend(c) => lib(|| {
            let _ = c.try_receive();
        }),
        Prim::Oneshot(c) => lib(|| {
            let _ = c.send(Tag(1));
        }),
        Prim::Bcast(c) => lib(|| {
            let _ = c.send(CTag(1));
        }),
        Prim::State(c) => lib(|| {
            let _ = c.send(CTag(1));
        }),
        Prim::Timer(t) => {
            clock().set_time(1);
            lib(|| t.check_expirations())
        }
        Prim::Mutex(_, g) => {
            let g = g.take();
            lib(|| drop(g))
        }
    }
}

impl System for WakerSeq {
    type Op = WakerSeqOp;
    fn new(_cfg: &Cfg) -> Self {
        WakerSeq { ran: None }
    }
    fn enabled(&self) -> Vec<WakerSeqOp> {
        if self.ran.is_some() {
            vec![]
        } else {
            (0..WS_KINDS.len() as u8).map(WakerSeqOp::Run).collect()
        }
    }
    fn apply(&mut self, op: WakerSeqOp, out: &mut StepOut) {
        let WakerSeqOp::Run(i) = op;
        self.ran = Some(i);
        let (kind, fair) = WS_KINDS[i as usize];
        let cfg = Cfg::new("burst", &[("kind", kind), ("fair", fair), ("n", 2)]);
        let mut n_seq = 0;
        for len in 1..=4usize {
            for code in 0..3usize.pow(len as u32) {
                let seq: Vec<usize> = (0..len).map(|p| 1 + (code / 3usize.pow(p as u32)) % 3).collect();
                n_seq += 1;
                harness::reset_thread_state();
                let mut sys = Sys::new(&cfg);
                // (single sends / receives that serve a parked future are C10's business)
                let prop: &'static str = if kind == 2 || kind == 3 { "C10" } else { sys.prop };
                let mut f = match lib(|| sys.make_future()) {
                    Ok(f) => f,
                    Err(p) => {
                        out.v("C01", "panic", format!("creating a future panicked: {}", p));
                        return;
                    }
                };
                for (k, &w) in seq.iter().enumerate() {
                    let waker = harness::waker(w);
                    match lib(|| f.as_mut().poll(&mut Context::from_waker(&waker))) {
                        Ok(Poll::Pending) => {}
                        Ok(Poll::Ready(_)) => {
                            out.v(prop, "burst-early-completion", format!("poll number {} of a parked future completed although nothing was released / sent / set / expired", k + 1));
                            std::mem::forget(f);
                            std::mem::forget(sys);
                            return;
                        }
                        Err(p) => {
                            out.v("C01", "panic", format!("poll panicked: {}", p));
                            std::mem::forget(f);
                            std::mem::forget(sys);
                            return;
                        }
                    }
                }
                let last = *seq.last().unwrap();
                let before = harness::wakes(last);
                if let Err(p) = fire_one(&mut sys) {
                    out.v("C01", "panic", format!("the serving operation panicked: {}", p));
                    std::mem::forget(f);
                    std::mem::forget(sys);
                    return;
                }
                if harness::wakes(last) == before {
                    let others: Vec<(usize, u32)> = (1..=3).filter(|w| *w != last).map(|w| (w, harness::wakes(w))).collect();
                    out.v(prop, "latest-waker-not-woken", format!("a parked future was polled with wakers {:?} in this order and then served: the waker of its latest poll ({}) was not invoked (wake counts of the others: {:?})", seq, last, others));
                    std::mem::forget(f);
                    std::mem::forget(sys);
                    return;
                }
                let waker = harness::waker(last);
                if !matches!(lib(|| f.as_mut().poll(&mut Context::from_waker(&waker))), Ok(Poll::Ready(_))) {
                    out.v(prop, "burst-still-pending", format!("a future polled with wakers {:?} does not complete after the operation that serves it", seq));
                    std::mem::forget(f);
                    std::mem::forget(sys);
                    return;
                }
                drop(f);
                drop(sys);
                let _ = harness::take_alloc_counts();
            }
        }
        out.o(&format!("kind {} fair {}: {} waker sequences ok", kind, fair, n_seq));
    }
    fn fingerprint(&self) -> Vec<u8> {
        vec![self.ran.map_or(255, |v| v)]
    }
    fn finish(self, _out: &mut StepOut) {}
}


// ---------------------------------------------------------------------------------------------
// Long histories between two polls of ONE future: N set()/reset() cycles on the event while a wait
// future is parked (it has been set while waiting, so its next poll completes), N release/acquire
// resp. unlock/lock cycles on the semaphore / mutex while a too-large request / a lock future stays
// parked behind a barger, for N around 2^8 and 2^16. A generation or sequence counter narrower
// than usize wraps within such a history.

#[derive(Clone, Copy, Debug, PartialEq)]
pub enum CycleOp {
    Run(u8),
}
pub struct Cycles {
    ran: Option<u8>,
}
const CYCLE_COUNTS: [usize; 8] = [1, 2, 255, 256, 257, 65535, 65536, 65537];

impl System for Cycles {
    type Op = CycleOp;
    fn new(_cfg: &Cfg) -> Self {
        Cycles { ran: None }
    }
    fn enabled(&self) -> Vec<CycleOp> {
        if self.ran.is_some() {
            vec![]
        } else {
            (0..CYCLE_COUNTS.len() as u8).map(CycleOp::Run).collect()
        }
    }
    fn apply(&mut self, op: CycleOp, out: &mut StepOut) {
        let CycleOp::Run(i) = op;
        self.ran = Some(i);
        let n = CYCLE_COUNTS[i as usize];
        harness::reset_thread_state();
        let waker = harness::waker(WAKER);
        // event
        {
            let e: Box<GenericManualResetEvent<PL>> = Box::new(GenericManualResetEvent::new(false));
            let er: &'static GenericManualResetEvent<PL> = stat!(&e, GenericManualResetEvent<PL>);
            let mut f = Box::pin(er.wait());
            if !matches!(lib(|| f.as_mut().poll(&mut Context::from_waker(&waker))), Ok(Poll::Pending)) {
                out.v("C14", "completed-without-set", "first poll on an unset event is not pending".to_string());
                return;
            }
            for k in 0..n {
                if k % 4096 == 0 {
                    crate::core::heartbeat();
                }
                if lib(|| {
                    e.set();
                    e.reset();
                })
                .is_err()
                {
                    out.v("C01", "panic", "set()/reset() panicked".to_string());
                    return;
                }
            }
            if harness::wakes(WAKER) == 0 {
                out.v("C14", "set-did-not-wake", format!("the event was set {} times while a waiter was parked, the waiter was never woken", n));
                return;
            }
            match lib(|| f.as_mut().poll(&mut Context::from_waker(&waker))) {
                Ok(Poll::Ready(())) => {}
                other => {
                    out.v("C14", "missed-set", format!("the event was set (and reset) {} times while the future waited; its next poll must complete, got {:?}", n, other));
                    std::mem::forget(f);
                    std::mem::forget(e);
                    return;
                }
            }
            drop(f);
            // a waiter that starts waiting after the last reset stays pending
            let mut g = Box::pin(er.wait());
            if !matches!(lib(|| g.as_mut().poll(&mut Context::from_waker(&waker))), Ok(Poll::Pending)) {
                out.v("C14", "completed-without-set", format!("after {} set()/reset() cycles a new waiter completes although the event is reset", n));
                return;
            }
            drop(g);
        }
        // semaphore: a request for 2 stays parked while single permits come and go
        {
            let s: Box<GenericSemaphore<PL>> = Box::new(GenericSemaphore::new(false, 0));
            let sr: &'static GenericSemaphore<PL> = stat!(&s, GenericSemaphore<PL>);
            let mut f = Box::pin(sr.acquire(2));
            let _ = lib(|| f.as_mut().poll(&mut Context::from_waker(&waker)));
            for k in 0..n {
                if k % 4096 == 0 {
                    crate::core::heartbeat();
                }
                let r = lib(|| {
                    sr.release(1);
                    match sr.try_acquire(1) {
                        Some(mut r) => {
                            r.disarm();
                            true
                        }
                        None => false,
                    }
                });
                if !matches!(r, Ok(true)) {
                    out.v("C05", "script", format!("cycle {}: try_acquire(1) failed right after release(1) on an unfair semaphore with no other taker", k + 1));
                    std::mem::forget(f);
                    std::mem::forget(s);
                    return;
                }
            }
            if sr.permits() != 0 {
                out.v("C05", "ledger", format!("after {} release(1)/try_acquire(1) cycles permits()={}", n, sr.permits()));
                std::mem::forget(f);
                std::mem::forget(s);
                return;
            }
            let w0 = harness::wakes(WAKER);
            let _ = lib(|| sr.release(2));
            if harness::wakes(WAKER) == w0 {
                out.v("C06", "head-stranded", format!("after {} cycles release(2) did not wake the parked request for 2 permits", n));
                std::mem::forget(f);
                std::mem::forget(s);
                return;
            }
            match lib(|| f.as_mut().poll(&mut Context::from_waker(&waker))) {
                Ok(Poll::Ready(mut r)) => {
                    r.disarm();
                }
                _ => {
                    out.v("C06", "script", format!("after {} cycles the parked request does not complete although 2 permits are free", n));
                    std::mem::forget(f);
                    std::mem::forget(s);
                    return;
                }
            }
            drop(f);
        }
        let _ = harness::take_alloc_counts();
        out.o(&format!("{} cycles ok", n));
    }
    fn fingerprint(&self) -> Vec<u8> {
        vec![self.ran.map_or(255, |v| v)]
    }
    fn finish(self, _out: &mut StepOut) {}
}
