//! E-SEQ "burst" systems: N futures (N = 0..n_max, default 40) are parked on a
//! primitive, then one mass wake-up operation is fired (set / release(N) /
//! close / send / check_expirations), then every future is polled again.
//! The family `Register^N ; Fire(v) ; PollAll` is enumerated for every N and
//! every variant v. It covers the "for any number of concurrent waiters"
//! clause of C18 (thresholds such as "more than 8 waiters woken at once")
//! and the "wakes all / nothing due missed" clauses of C06, C11-C15 for
//! large N, which the fixpoint systems (k <= 7) cannot reach.

use crate::core::{Cfg, StepOut, System};
use crate::harness::{self, lib, CTag, Tag};
use futures_intrusive::buffer::FixedHeapBuf;
use futures_intrusive::channel::{GenericChannel, GenericOneshotBroadcastChannel, GenericOneshotChannel, GenericStateBroadcastChannel, StateId};
use futures_intrusive::sync::{GenericManualResetEvent, GenericSemaphore};
use futures_intrusive::timer::{GenericTimerService, MockClock, Timer};
use std::future::Future;
use std::pin::Pin;
use std::task::{Context, Poll};

type PL = harness::PLD;
type DynFut = Pin<Box<dyn Future<Output = u8>>>;

thread_local! {
    static CLOCK: &'static MockClock = Box::leak(Box::new(MockClock::new()));
}
fn clock() -> &'static MockClock {
    CLOCK.with(|c| *c)
}

enum Prim {
    Event(Box<GenericManualResetEvent<PL>>),
    Sem(Box<GenericSemaphore<PL>>),
    MpmcRecv(Box<GenericChannel<PL, Tag, FixedHeapBuf<Tag>>>),
    MpmcSend(Box<GenericChannel<PL, Tag, FixedHeapBuf<Tag>>>),
    Oneshot(Box<GenericOneshotChannel<PL, Tag>>),
    Bcast(Box<GenericOneshotBroadcastChannel<PL, CTag>>),
    State(Box<GenericStateBroadcastChannel<PL, CTag>>),
    Timer(Box<GenericTimerService<PL>>),
    /// mutex held by a guard (dropped by Fire); the woken futures lock and unlock in a chain
    Mutex(Box<futures_intrusive::sync::GenericMutex<PL, u32>>, Option<futures_intrusive::sync::GenericMutexGuard<'static, PL, u32>>),
}

#[derive(Clone, Copy, Debug, PartialEq)]
pub enum Op {
    Register,
    Fire(u8),
    PollAll,
}

pub struct Sys {
    futs: Vec<Option<DynFut>>,
    // NOTE: Prim::Mutex holds its guard next to the mutex; the guard is declared after the Box in
    // the tuple but is always taken (dropped) before the mutex by Fire or by Drop below
    prim: Prim,
    kind: u8,
    n_max: usize,
    fired: Option<u8>,
    polled_after: bool,
    prop: &'static str,
}

const WAKER: usize = 1;

// result codes of the wrapped futures
const R_UNIT: u8 = 0;
const R_SOME: u8 = 1;
const R_NONE: u8 = 2;
const R_OK: u8 = 3;
const R_ERR: u8 = 4;

macro_rules! stat {
    ($b:expr, $t:ty) => {
        unsafe { &*(&**$b as *const $t) }
    };
}

impl Sys {
    fn variants(&self) -> u8 {
        match self.kind {
            4 | 5 | 6 => 2, // send or close
            _ => 1,
        }
    }

    fn make_future(&self) -> DynFut {
        match &self.prim {
            Prim::Event(e) => {
                let e: &'static GenericManualResetEvent<PL> = stat!(e, GenericManualResetEvent<PL>);
                let f = e.wait();
                Box::pin(async move {
                    f.await;
                    R_UNIT
                })
            }
            Prim::Sem(s) => {
                let s: &'static GenericSemaphore<PL> = stat!(s, GenericSemaphore<PL>);
                let f = s.acquire(1);
                Box::pin(async move {
                    let mut r = f.await;
                    r.disarm();
                    R_UNIT
                })
            }
            Prim::MpmcRecv(c) => {
                let c: &'static GenericChannel<PL, Tag, FixedHeapBuf<Tag>> = stat!(c, GenericChannel<PL, Tag, FixedHeapBuf<Tag>>);
                let f = c.receive();
                Box::pin(async move {
                    match f.await {
                        Some(_) => R_SOME,
                        None => R_NONE,
                    }
                })
            }
            Prim::MpmcSend(c) => {
                let c: &'static GenericChannel<PL, Tag, FixedHeapBuf<Tag>> = stat!(c, GenericChannel<PL, Tag, FixedHeapBuf<Tag>>);
                let f = c.send(Tag(0));
                Box::pin(async move {
                    match f.await {
                        Ok(()) => R_OK,
                        Err(_) => R_ERR,
                    }
                })
            }
            Prim::Oneshot(c) => {
                let c: &'static GenericOneshotChannel<PL, Tag> = stat!(c, GenericOneshotChannel<PL, Tag>);
                let f = c.receive();
                Box::pin(async move {
                    match f.await {
                        Some(_) => R_SOME,
                        None => R_NONE,
                    }
                })
            }
            Prim::Bcast(c) => {
                let c: &'static GenericOneshotBroadcastChannel<PL, CTag> = stat!(c, GenericOneshotBroadcastChannel<PL, CTag>);
                let f = c.receive();
                Box::pin(async move {
                    match f.await {
                        Some(_) => R_SOME,
                        None => R_NONE,
                    }
                })
            }
            Prim::State(c) => {
                let c: &'static GenericStateBroadcastChannel<PL, CTag> = stat!(c, GenericStateBroadcastChannel<PL, CTag>);
                let f = c.receive(StateId::new());
                Box::pin(async move {
                    match f.await {
                        Some(_) => R_SOME,
                        None => R_NONE,
                    }
                })
            }
            Prim::Timer(t) => {
                let t: &'static GenericTimerService<PL> = stat!(t, GenericTimerService<PL>);
                let f = Timer::deadline(t, 1);
                Box::pin(async move {
                    f.await;
                    R_UNIT
                })
            }
            Prim::Mutex(m, _) => {
                let m: &'static futures_intrusive::sync::GenericMutex<PL, u32> = stat!(m, futures_intrusive::sync::GenericMutex<PL, u32>);
                let f = m.lock();
                Box::pin(async move {
                    let mut g = f.await;
                    *g += 1;
                    drop(g);
                    R_UNIT
                })
            }
        }
    }

    fn allocs(&self, what: &str, out: &mut StepOut) {
        let (na, nf) = harness::take_alloc_counts();
        if na + nf > 0 {
            out.p("C18", "alloc-in-call", format!("{} allocations / {} frees inside {} with {} parked futures", na, nf, what, self.futs.iter().flatten().count()));
        }
    }
}

impl Drop for Sys {
    fn drop(&mut self) {
        self.futs.clear();
        if let Prim::Mutex(_, g) = &mut self.prim {
            drop(g.take());
        }
    }
}

impl System for Sys {
    type Op = Op;

    fn new(cfg: &Cfg) -> Self {
        let kind = cfg.get("kind") as u8;
        clock().set_time(0);
        let (prim, prop): (Prim, &'static str) = match kind {
            0 => (Prim::Event(Box::new(GenericManualResetEvent::new(false))), "C14"),
            1 => (Prim::Sem(Box::new(GenericSemaphore::new(cfg.flag("fair"), 0))), "C06"),
            2 => (Prim::MpmcRecv(Box::new(GenericChannel::with_capacity(1))), "C11"),
            3 => (Prim::MpmcSend(Box::new(GenericChannel::with_capacity(0))), "C11"),
            4 => (Prim::Oneshot(Box::new(GenericOneshotChannel::new())), "C12"),
            5 => (Prim::Bcast(Box::new(GenericOneshotBroadcastChannel::new())), "C12"),
            6 => (Prim::State(Box::new(GenericStateBroadcastChannel::new())), "C13"),
            7 => (Prim::Timer(Box::new(GenericTimerService::new(clock()))), "C15"),
            8 => {
                let m = Box::new(futures_intrusive::sync::GenericMutex::<PL, u32>::new(0, cfg.flag("fair")));
                let mr: &'static futures_intrusive::sync::GenericMutex<PL, u32> = stat!(&m, futures_intrusive::sync::GenericMutex<PL, u32>);
                let g = mr.try_lock().expect("fresh mutex");
                (Prim::Mutex(m, Some(g)), "C03")
            }
            _ => panic!("unknown burst kind"),
        };
        let n_max = cfg.get_or("n", 40) as usize;
        let mut futs = Vec::with_capacity(n_max + 1);
        futs.clear();
        Sys { futs, prim, kind, n_max, fired: None, polled_after: false, prop }
    }

    fn enabled(&self) -> Vec<Op> {
        let mut v = vec![];
        match self.fired {
            None => {
                if self.futs.len() < self.n_max {
                    v.push(Op::Register);
                }
                for x in 0..self.variants() {
                    v.push(Op::Fire(x));
                }
            }
            Some(_) => {
                if !self.polled_after {
                    v.push(Op::PollAll);
                }
            }
        }
        v
    }

    fn apply(&mut self, op: Op, out: &mut StepOut) {
        let waker = harness::waker(WAKER);
        if let Prim::Timer(_) = self.prim {
            clock().set_time(if self.fired.is_some() { 1 } else { 0 });
        }
        match op {
            Op::Register => {
                let mut f = match lib(|| self.make_future()) {
                    Ok(f) => f,
                    Err(p) => {
                        out.v("C01", "panic", format!("creating a future panicked: {}", p));
                        return;
                    }
                };
                // the Box of the wrapper future is the harness' allocation
                let _ = harness::take_alloc_counts();
                match lib(|| f.as_mut().poll(&mut Context::from_waker(&waker))) {
                    Err(p) => {
                        out.v("C01", "panic", format!("first poll panicked: {}", p));
                        out.corrupt = true;
                    }
                    Ok(Poll::Ready(r)) => out.v(self.prop, "burst-early-completion", format!("future number {} completed at its first poll with result code {} although nothing was released / sent / set / expired", self.futs.len(), r)),
                    Ok(Poll::Pending) => out.o("Pending"),
                }
                self.allocs("the first poll of a future", out);
                self.futs.push(Some(f));
            }
            Op::Fire(v) => {
                let n = self.futs.len();
                let w0 = harness::wakes(WAKER);
                let r = match &self.prim {
                    Prim::Event(e) => lib(|| e.set()),
                    Prim::Sem(s) => lib(|| s.release(n)),
                    Prim::MpmcRecv(c) | Prim::MpmcSend(c) => lib(|| {
                        c.close();
                    }),
                    Prim::Oneshot(c) => lib(|| {
                        if v == 0 {
                            let _ = c.send(Tag(1));
                        } else {
                            c.close();
                        }
                    }),
                    Prim::Bcast(c) => lib(|| {
                        if v == 0 {
                            let _ = c.send(CTag(1));
                        } else {
                            c.close();
                        }
                    }),
                    Prim::State(c) => lib(|| {
                        if v == 0 {
                            let _ = c.send(CTag(1));
                        } else {
                            c.close();
                        }
                    }),
                    Prim::Timer(t) => {
                        clock().set_time(1);
                        lib(|| t.check_expirations())
                    }
                    Prim::Mutex(_, _) => Ok(()),
                };
                if let Prim::Mutex(_, g) = &mut self.prim {
                    let g = g.take();
                    if let Err(p) = lib(|| drop(g)) {
                        out.v("C01", "panic", format!("dropping the guard panicked: {}", p));
                    }
                }
                if let Err(p) = r {
                    out.v("C01", "panic", format!("the mass wake-up operation panicked with {} parked futures: {}", n, p));
                    out.corrupt = true;
                }
                self.allocs("the mass wake-up operation", out);
                let woken = (harness::wakes(WAKER) - w0) as usize;
                // a fair semaphore wakes only the head; everything else wakes all parked futures
                let expect = match (&self.prim, n) {
                    (_, 0) => 0,
                    (Prim::Sem(_), _) if woken >= 1 && woken < n => woken,
                    (Prim::Mutex(_, _), _) => 1,
                    _ => n,
                };
                if woken < expect {
                    out.p(self.prop, "burst-not-all-woken", format!("{} futures were parked, the operation invoked only {} wakers", n, woken));
                }
                out.o(&format!("woken={}", woken.min(n)));
                self.fired = Some(v);
            }
            Op::PollAll => {
                let n = self.futs.len();
                let mut pending = vec![];
                let mut somes = 0;
                for (i, slot) in self.futs.iter_mut().enumerate() {
                    let f = slot.as_mut().unwrap();
                    match lib(|| f.as_mut().poll(&mut Context::from_waker(&waker))) {
                        Err(p) => {
                            out.v("C01", "panic", format!("poll of future {} after the mass wake-up panicked: {}", i, p));
                            out.corrupt = true;
                            break;
                        }
                        Ok(Poll::Pending) => pending.push(i),
                        Ok(Poll::Ready(r)) => {
                            if r == R_SOME {
                                somes += 1;
                            }
                        }
                    }
                }
                self.allocs("the polls after the mass wake-up", out);
                if !pending.is_empty() {
                    out.v(self.prop, "burst-still-pending", format!("{} futures were parked before the operation; after it futures {:?} are still pending when polled", n, pending));
                }
                let fired = self.fired.unwrap();
                let want_some = match (&self.prim, fired) {
                    (Prim::Oneshot(_), 0) => n.min(1),
                    (Prim::Bcast(_), 0) | (Prim::State(_), 0) => n,
                    _ => 0,
                };
                if pending.is_empty() && somes != want_some {
                    out.v(self.prop, "burst-results", format!("{} of {} futures yielded a value, expected {}", somes, n, want_some));
                }
                self.polled_after = true;
                // drop everything: must not allocate either
                let futs: Vec<Option<DynFut>> = std::mem::take(&mut self.futs);
                harness::take_alloc_counts();
                drop(futs);
            }
        }
    }

    fn fingerprint(&self) -> Vec<u8> {
        vec![self.futs.len() as u8, self.fired.map_or(255, |v| v), self.polled_after as u8]
    }

    fn finish(self, _out: &mut StepOut) {}
}
