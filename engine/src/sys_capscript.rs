//! E-SEQ scripted system: one mpmc channel per capacity in CAPS is driven through a fixed life
//! cycle (fill by try_send, overflow, park three senders, drain through try_receive / receive
//! futures while the parked senders move up, close, drain, closed behaviour) with the complete
//! outcome fixed by C08-C11: which calls succeed, which value each receive yields, who is woken,
//! what comes back. The fixpoint systems use capacities 0, 1, 2 only; here the capacity is the
//! varied quantity (0..5, 8, 16, 17, 64, 65, 100) for the two heap buffers and the shared flavour.

use crate::core::{Cfg, StepOut, System};
use crate::harness::{self, drops, lib, Tag};
use futures_intrusive::buffer::{FixedHeapBuf, GrowingHeapBuf, RingBuf};
use futures_intrusive::channel::{ChannelSendError, GenericChannel, TryReceiveError, TrySendError};
use std::future::Future;
use std::marker::PhantomData;
use std::task::{Context, Poll};

type PL = harness::PLD;
pub const CAPS: [usize; 12] = [0, 1, 2, 3, 4, 5, 8, 16, 17, 64, 65, 100];

#[derive(Clone, Copy, Debug, PartialEq)]
pub enum Op {
    Run(u8),
}

pub struct CapScript<A> {
    ran: Option<u8>,
    _a: PhantomData<A>,
}

pub type Fix = CapScript<FixedHeapBuf<Tag>>;
pub type Grow = CapScript<GrowingHeapBuf<Tag>>;

const W_S: usize = 1; // waker of the parked senders
const W_R: usize = 2; // waker of the parked receiver

fn script<A: RingBuf<Item = Tag> + 'static>(cap: usize, out: &mut StepOut) {
    macro_rules! bail {
        ($p:expr, $c:expr, $($a:tt)*) => {{
            out.v($p, $c, format!("capacity {}: {}", cap, format!($($a)*)));
            return;
        }};
    }
    harness::reset_thread_state();
    let chan: Box<GenericChannel<PL, Tag, A>> = Box::new(GenericChannel::with_capacity(cap));
    let c: &'static GenericChannel<PL, Tag, A> = unsafe { &*(&*chan as *const GenericChannel<PL, Tag, A>) };
    let ws = harness::waker(W_S);
    let wr = harness::waker(W_R);
    let mut kept: Vec<Tag> = Vec::with_capacity(256);
    let mut next: u8 = 0;
    // a receiver that parks on the empty channel is woken by the first accepted value
    let mut r0 = Box::pin(c.receive());
    match lib(|| r0.as_mut().poll(&mut Context::from_waker(&wr))) {
        Ok(Poll::Pending) => {}
        other => bail!("C09", "script", "receive on an empty open channel: {:?}", other.map(|p| p.map(|o| o.map(|t| t.0)))),
    }
    // 1. fill
    for i in 0..cap {
        let t = next;
        next += 1;
        let w0 = harness::wakes(W_R);
        match lib(|| c.try_send(Tag(t))) {
            Ok(Ok(())) => {}
            Ok(Err(e)) => {
                let full = matches!(e, TrySendError::Full(_));
                kept.push(e.into_inner());
                bail!("C09", "capacity", "try_send number {} failed ({}) although only {} of {} slots are used", i + 1, if full { "Full" } else { "Closed" }, i, cap);
            }
            Err(p) => bail!("C01", "panic", "try_send panicked: {}", p),
        }
        if i == 0 && harness::wakes(W_R) == w0 {
            bail!("C10", "receiver-lost-wakeup", "the first accepted value did not wake the parked receiver");
        }
    }
    if cap > 0 {
        match lib(|| r0.as_mut().poll(&mut Context::from_waker(&wr))) {
            Ok(Poll::Ready(Some(t))) => {
                if t.0 != 0 {
                    bail!("C09", "fifo-order", "the parked receiver got value {} instead of 0", t.0);
                }
                kept.push(t);
            }
            other => bail!("C10", "script", "the woken receiver did not get value 0: {:?}", other.map(|p| p.map(|o| o.map(|t| t.0)))),
        }
        // refill the freed slot
        let t = next;
        next += 1;
        if let Ok(Err(e)) = lib(|| c.try_send(Tag(t))) {
            kept.push(e.into_inner());
            bail!("C09", "capacity", "try_send failed although one of {} slots had just been freed", cap);
        }
    }
    let first_in_buffer: u8 = if cap > 0 { 1 } else { 0 };
    // 2. overflow: two more try_send must be handed back (try_send is documented to panic on an
    // unbuffered channel: not part of the script for capacity 0)
    for _ in 0..(if cap > 0 { 2 } else { 0 }) {
        let t = next;
        next += 1;
        match lib(|| c.try_send(Tag(t))) {
            Ok(Err(TrySendError::Full(v))) => {
                if v.0 != t {
                    let got = v.0;
                    kept.push(v);
                    bail!("C08", "wrong-value-returned", "try_send({}) on a full channel handed back value {}", t, got);
                }
                kept.push(v);
            }
            Ok(Err(TrySendError::Closed(v))) => {
                kept.push(v);
                bail!("C11", "script", "try_send reports Closed on an open channel");
            }
            Ok(Ok(())) => bail!("C09", "capacity", "try_send number {} was accepted by a channel of capacity {}", cap + 1, cap),
            Err(p) => bail!("C01", "panic", "try_send panicked: {}", p),
        }
    }
    // 3. three senders park
    let parked_first = next;
    let mut senders = Vec::with_capacity(3);
    for _ in 0..3 {
        let t = next;
        next += 1;
        let mut f = Box::pin(c.send(Tag(t)));
        match lib(|| f.as_mut().poll(&mut Context::from_waker(&ws))) {
            Ok(Poll::Pending) => {}
            Ok(Poll::Ready(r)) => {
                if let Err(ChannelSendError(v)) = r {
                    kept.push(v);
                }
                if cap == 0 && t == parked_first {
                    // capacity 0 with the receiver r0 still parked: a rendezvous is legitimate
                } else {
                    bail!("C09", "capacity", "send({}) completed at once although {} of {} slots are used", t, cap, cap);
                }
            }
            Err(p) => bail!("C01", "panic", "send poll panicked: {}", p),
        }
        senders.push((t, f, false));
    }
    if cap == 0 {
        // r0 takes the value of the oldest parked sender
        match lib(|| r0.as_mut().poll(&mut Context::from_waker(&wr))) {
            Ok(Poll::Ready(Some(t))) => {
                if t.0 != parked_first {
                    bail!("C09", "fifo-order", "the parked receiver got value {} instead of {}", t.0, parked_first);
                }
                kept.push(t);
            }
            other => bail!("C10", "script", "capacity 0: the receiver did not get the value of the oldest parked sender: {:?}", other.map(|p| p.map(|o| o.map(|t| t.0)))),
        }
    }
    drop(r0);
    // 4. drain: the buffered values in order, then the parked ones; every receive that frees a slot
    // wakes a parked sender, whose send then completes
    let mut expected: Vec<u8> = vec![];
    if cap > 0 {
        expected.extend(first_in_buffer..first_in_buffer + cap as u8);
    }
    for s in senders.iter() {
        if !(cap == 0 && s.0 == parked_first) {
            expected.push(s.0);
        }
    }
    for (k, &want) in expected.iter().enumerate() {
        let w0 = harness::wakes(W_S);
        match lib(|| c.try_receive()) {
            Ok(Ok(t)) => {
                if t.0 != want {
                    let got = t.0;
                    kept.push(t);
                    bail!("C09", "fifo-order", "receive number {} yielded value {}, the order in which the sends took effect says {}", k + 1, got, want);
                }
                kept.push(t);
            }
            Ok(Err(e)) => bail!("C09", "script", "try_receive number {} failed ({}) although value {} is in flight", k + 1, if e == TryReceiveError::Empty { "Empty" } else { "Closed" }, want),
            Err(p) => bail!("C01", "panic", "try_receive panicked: {}", p),
        }
        // senders that are still parked: the oldest one has moved up (or handed over its value)
        if let Some(s) = senders.iter_mut().find(|s| !s.2) {
            if harness::wakes(W_S) == w0 {
                bail!("C10", "sender-lost-wakeup", "receive number {} freed a slot, parked sender of value {} was not woken", k + 1, s.0);
            }
            match lib(|| s.1.as_mut().poll(&mut Context::from_waker(&ws))) {
                Ok(Poll::Ready(Ok(()))) => s.2 = true,
                Ok(Poll::Ready(Err(ChannelSendError(v)))) => {
                    kept.push(v);
                    bail!("C11", "script", "a parked send failed on an open channel");
                }
                Ok(Poll::Pending) => bail!("C10", "script", "the woken sender of value {} is still pending although a slot is free", s.0),
                Err(p) => bail!("C01", "panic", "send poll panicked: {}", p),
            }
        }
    }
    match lib(|| c.try_receive()) {
        Ok(Err(TryReceiveError::Empty)) => {}
        Ok(Ok(t)) => {
            let got = t.0;
            kept.push(t);
            bail!("C08", "duplicate-or-phantom", "the drained channel yields another value ({})", got);
        }
        other => bail!("C11", "script", "try_receive on the drained open channel: {:?}", other.map(|r| r.map(|t| t.0))),
    }
    // 5. close with one parked receiver and (capacity permitting) one buffered value
    if cap > 0 {
        let t = next;
        next += 1;
        if let Ok(Err(e)) = lib(|| c.try_send(Tag(t))) {
            kept.push(e.into_inner());
            bail!("C09", "capacity", "try_send into the drained channel failed");
        }
    }
    let closed = lib(|| c.close());
    if !matches!(closed, Ok(s) if s.is_newly_closed()) {
        bail!("C11", "close-status", "first close() did not report NewlyClosed");
    }
    if !matches!(lib(|| c.close()), Ok(s) if !s.is_newly_closed()) {
        bail!("C11", "close-status", "second close() did not report AlreadyClosed");
    }
    let t = next;
    if cap > 0 {
        match lib(|| c.try_send(Tag(t))) {
            Ok(Err(TrySendError::Closed(v))) if v.0 == t => kept.push(v),
            Ok(Err(e)) => {
                kept.push(e.into_inner());
                bail!("C11", "script", "try_send on the closed channel did not hand back its own value as Closed");
            }
            _ => bail!("C11", "send-accepted-when-closed", "try_send succeeded on the closed channel"),
        }
    } else {
        let mut f = Box::pin(c.send(Tag(t)));
        match lib(|| f.as_mut().poll(&mut Context::from_waker(&ws))) {
            Ok(Poll::Ready(Err(ChannelSendError(v)))) if v.0 == t => kept.push(v),
            _ => bail!("C11", "send-accepted-when-closed", "send on the closed channel did not fail with its own value"),
        }
    }
    if cap > 0 {
        match lib(|| c.try_receive()) {
            Ok(Ok(v)) if v.0 == t - 1 => kept.push(v),
            other => bail!("C11", "none-before-drained", "the value accepted before close() is not delivered after it: {:?}", other.map(|r| r.map(|t| t.0))),
        }
    }
    if !matches!(lib(|| c.try_receive()), Ok(Err(TryReceiveError::Closed))) {
        bail!("C11", "script", "try_receive on the closed, drained channel does not report Closed");
    }
    // 6. accounting: nothing that was handed out has been dropped by the channel; dropping the
    // channel drops nothing more
    for v in kept.iter() {
        if drops(v.0) != 0 {
            bail!("C08", "dropped-twice", "value {} is owned by the caller and has also been dropped inside the channel", v.0);
        }
    }
    let handed: Vec<u8> = kept.iter().map(|v| v.0).collect();
    for t in 0..=t {
        if !handed.contains(&t) {
            bail!("C08", "lost-value", "value {} was neither received nor handed back", t);
        }
    }
    drop(senders);
    if let Err(p) = lib(|| drop(chan)) {
        bail!("C01", "panic", "dropping the channel panicked: {}", p);
    }
    kept.clear();
    let _ = harness::take_alloc_counts();
}

impl<A: RingBuf<Item = Tag> + 'static> System for CapScript<A> {
    type Op = Op;
    fn new(_cfg: &Cfg) -> Self {
        CapScript { ran: None, _a: PhantomData }
    }
    fn enabled(&self) -> Vec<Op> {
        if self.ran.is_some() {
            vec![]
        } else {
            (0..CAPS.len() as u8).map(Op::Run).collect()
        }
    }
    fn apply(&mut self, op: Op, out: &mut StepOut) {
        let Op::Run(i) = op;
        self.ran = Some(i);
        script::<A>(CAPS[i as usize], out);
        if out.viol.is_empty() {
            out.o(&format!("capacity {} ok", CAPS[i as usize]));
        }
    }
    fn fingerprint(&self) -> Vec<u8> {
        vec![self.ran.map_or(255, |v| v)]
    }
    fn finish(self, _out: &mut StepOut) {}
}


// ---------------------------------------------------------------------------------------------
// Payload size and total buffer size as the varied quantity (C18): a FixedHeapBuf-backed channel
// whose buffer is larger than 1 MiB / 2 MiB in total, with payloads from 1 byte to 64 KiB, is
// filled and drained completely; no try_send / try_receive / send / receive poll may allocate or
// free (the buffer has to be allocated once, up front, whatever its size).

pub struct Big<const N: usize>([u8; N]);

#[derive(Clone, Copy, Debug, PartialEq)]
pub enum BigOp {
    Run(u8),
}
pub struct BigPayload {
    ran: Option<u8>,
}

fn big_script<const N: usize>(cap: usize, out: &mut StepOut) {
    harness::reset_thread_state();
    let chan: Box<GenericChannel<PL, Big<N>, FixedHeapBuf<Big<N>>>> = Box::new(GenericChannel::with_capacity(cap));
    let _ = harness::take_alloc_counts();
    let ws = harness::waker(W_S);
    for round in 0..2 {
        for i in 0..cap {
            if i % 512 == 0 {
                crate::core::heartbeat();
            }
            let r = lib(|| chan.try_send(Big([i as u8; N])).is_ok());
            let (na, nf) = harness::take_alloc_counts();
            if na + nf > 0 {
                out.v("C18", "alloc-in-call", format!("payload {} bytes, capacity {}: try_send number {} (round {}) performed {} allocations / {} frees", N, cap, i + 1, round, na, nf));
                return;
            }
            if !matches!(r, Ok(true)) {
                out.v("C09", "capacity", format!("payload {} bytes, capacity {}: try_send number {} failed", N, cap, i + 1));
                return;
            }
        }
        // one more sender parks and is served by the first receive
        let c: &'static GenericChannel<PL, Big<N>, FixedHeapBuf<Big<N>>> = unsafe { &*(&*chan as *const _) };
        let mut parked = Box::pin(c.send(Big([7; N])));
        let _ = harness::take_alloc_counts();
        let r = lib(|| parked.as_mut().poll(&mut Context::from_waker(&ws)).is_pending());
        let (na, nf) = harness::take_alloc_counts();
        if na + nf > 0 || !matches!(r, Ok(true)) {
            out.v("C18", "alloc-in-call", format!("payload {} bytes, capacity {}: the poll of a send future on the full channel performed {} allocations / {} frees (pending: {:?})", N, cap, na, nf, r));
            return;
        }
        for i in 0..cap + 1 {
            if i % 512 == 0 {
                crate::core::heartbeat();
            }
            let r = lib(|| chan.try_receive().map(|b| b.0[0]).ok());
            let (na, nf) = harness::take_alloc_counts();
            if na + nf > 0 {
                out.v("C18", "alloc-in-call", format!("payload {} bytes, capacity {}: try_receive number {} performed {} allocations / {} frees", N, cap, i + 1, na, nf));
                return;
            }
            let want = if i < cap { i as u8 } else { 7 };
            if r != Ok(Some(want)) {
                out.v("C09", "fifo-order", format!("payload {} bytes, capacity {}: try_receive number {} yielded {:?}, expected {}", N, cap, i + 1, r, want));
                return;
            }
            if i == 0 {
                let r = lib(|| parked.as_mut().poll(&mut Context::from_waker(&ws)).is_ready());
                let (na, nf) = harness::take_alloc_counts();
                if na + nf > 0 || !matches!(r, Ok(true)) {
                    out.v("C18", "alloc-in-call", format!("payload {} bytes, capacity {}: completing the parked send performed {} allocations / {} frees (ready: {:?})", N, cap, na, nf, r));
                    return;
                }
            }
        }
        drop(parked);
        let _ = harness::take_alloc_counts();
    }
    drop(chan);
    let _ = harness::take_alloc_counts();
}

impl System for BigPayload {
    type Op = BigOp;
    fn new(_cfg: &Cfg) -> Self {
        BigPayload { ran: None }
    }
    fn enabled(&self) -> Vec<BigOp> {
        if self.ran.is_some() {
            vec![]
        } else {
            (0..6).map(BigOp::Run).collect()
        }
    }
    fn apply(&mut self, op: BigOp, out: &mut StepOut) {
        let BigOp::Run(i) = op;
        self.ran = Some(i);
        match i {
            0 => big_script::<1>(2_200_000, out),
            1 => big_script::<16>(140_000, out),
            2 => big_script::<256>(9_000, out),
            3 => big_script::<4096>(600, out),
            4 => big_script::<65536>(40, out),
            _ => big_script::<4096>(100, out),
        }
        if out.viol.is_empty() {
            out.o("ok");
        }
    }
    fn fingerprint(&self) -> Vec<u8> {
        vec![self.ran.map_or(255, |v| v)]
    }
    fn finish(self, _out: &mut StepOut) {}
}


// ---------------------------------------------------------------------------------------------
// `Clone::clone_from` on shared handles (used implicitly by `Vec::clone_from` and friends): a
// handle that is re-pointed from channel A to channel B stops counting for A and counts for B.
// One script per handle type; the expected outcome is fixed by C11 ("closes implicitly exactly
// when its last sender handle or its last receiver handle is dropped - never while a handle of
// each side is still alive").

#[derive(Clone, Copy, Debug, PartialEq)]
pub enum HandleOp {
    Run(u8),
}
pub struct HandleScript {
    ran: Option<u8>,
}

fn mpmc_sender_clone_from(out: &mut StepOut) {
    use futures_intrusive::channel::shared::generic_channel;
    let (tx_a, rx_a) = generic_channel::<PL, u32, FixedHeapBuf<u32>>(2);
    let (tx_b, rx_b) = generic_channel::<PL, u32, FixedHeapBuf<u32>>(2);
    let wr = harness::waker(W_R);
    let mut parked = Box::pin(rx_a.receive());
    if !matches!(lib(|| parked.as_mut().poll(&mut Context::from_waker(&wr))), Ok(Poll::Pending)) {
        out.v("C09", "script", "receive on an empty open channel is not pending".to_string());
        return;
    }
    let mut h = tx_a.clone();
    if let Err(p) = lib(|| h.clone_from(&tx_b)) {
        out.v("C01", "panic", format!("clone_from panicked: {}", p));
        return;
    }
    let w0 = harness::wakes(W_R);
    drop(tx_a);
    // channel A has no sender left
    if harness::wakes(W_R) == w0 {
        out.v("C11", "last-sender-did-not-close", "the last sender handle of channel A was dropped (another one had been re-pointed to channel B with clone_from), the parked receiver was not woken".to_string());
        return;
    }
    if !matches!(lib(|| parked.as_mut().poll(&mut Context::from_waker(&wr))), Ok(Poll::Ready(None))) {
        out.v("C11", "last-sender-did-not-close", "channel A has no sender handle left but a receive does not yield None".to_string());
        return;
    }
    // channel B: the re-pointed handle counts
    drop(tx_b);
    if !matches!(lib(|| h.try_send(7)), Ok(Ok(()))) {
        out.v("C11", "closed-too-early", "channel B was closed although the re-pointed sender handle is alive".to_string());
        return;
    }
    drop(h);
    match lib(|| (rx_b.try_receive(), rx_b.try_receive())) {
        Ok((Ok(7), Err(TryReceiveError::Closed))) => {}
        other => out.v("C11", "last-sender-did-not-close", format!("after the last sender of channel B was dropped: {:?}", other.map(|(a, b)| (a.ok(), b.err().map(|e| e.is_closed()))))),
    }
    drop(parked);
}

fn mpmc_receiver_clone_from(out: &mut StepOut) {
    use futures_intrusive::channel::shared::generic_channel;
    let (tx_a, rx_a) = generic_channel::<PL, u32, FixedHeapBuf<u32>>(2);
    let (tx_b, rx_b) = generic_channel::<PL, u32, FixedHeapBuf<u32>>(2);
    let mut h = rx_a.clone();
    if let Err(p) = lib(|| h.clone_from(&rx_b)) {
        out.v("C01", "panic", format!("clone_from panicked: {}", p));
        return;
    }
    drop(rx_a);
    // channel A has no receiver left: sends fail and hand the value back
    match lib(|| tx_a.try_send(1)) {
        Ok(Err(TrySendError::Closed(1))) => {}
        other => {
            out.v("C11", "last-receiver-did-not-close", format!("channel A has no receiver handle left (one had been re-pointed to channel B with clone_from) but try_send yields {:?}", other.map(|r| r.is_ok())));
            return;
        }
    }
    drop(rx_b);
    if !matches!(lib(|| tx_b.try_send(2)), Ok(Ok(()))) {
        out.v("C11", "closed-too-early", "channel B was closed although the re-pointed receiver handle is alive".to_string());
        return;
    }
    if !matches!(lib(|| h.try_receive()), Ok(Ok(2))) {
        out.v("C09", "script", "the re-pointed receiver handle does not receive from channel B".to_string());
        return;
    }
    drop(h);
    if !matches!(lib(|| tx_b.try_send(3)), Ok(Err(TrySendError::Closed(3)))) {
        out.v("C11", "last-receiver-did-not-close", "channel B accepts a value although its last receiver handle was dropped".to_string());
    }
}

fn state_handles_clone_from(out: &mut StepOut) {
    use futures_intrusive::channel::shared::generic_state_broadcast_channel;
    use futures_intrusive::channel::StateId;
    let (tx_a, rx_a) = generic_state_broadcast_channel::<PL, u32>();
    let (tx_b, rx_b) = generic_state_broadcast_channel::<PL, u32>();
    let mut h = tx_a.clone();
    if let Err(p) = lib(|| h.clone_from(&tx_b)) {
        out.v("C01", "panic", format!("clone_from panicked: {}", p));
        return;
    }
    drop(tx_a);
    let wr = harness::waker(W_R);
    let mut f = Box::pin(rx_a.receive(StateId::new()));
    if !matches!(lib(|| f.as_mut().poll(&mut Context::from_waker(&wr))), Ok(Poll::Ready(None))) {
        out.v("C11", "last-sender-did-not-close", "state channel A has no sender handle left (one had been re-pointed with clone_from) but receive does not yield None".to_string());
        return;
    }
    drop(tx_b);
    if !matches!(lib(|| h.send(5)), Ok(Ok(()))) {
        out.v("C11", "closed-too-early", "state channel B was closed although the re-pointed sender handle is alive".to_string());
        return;
    }
    let mut r = rx_a.clone();
    if let Err(p) = lib(|| r.clone_from(&rx_b)) {
        out.v("C01", "panic", format!("clone_from panicked: {}", p));
        return;
    }
    drop(rx_b);
    if !matches!(lib(|| r.try_receive(StateId::new()).map(|x| x.1)), Ok(Some(5))) {
        out.v("C13", "script", "the re-pointed receiver handle does not see the state of channel B".to_string());
        return;
    }
    drop(r);
    if !matches!(lib(|| h.send(6)), Ok(Err(_))) {
        out.v("C11", "last-receiver-did-not-close", "state channel B accepts a value although its last receiver handle was dropped".to_string());
    }
    drop(f);
    drop(rx_a);
}

/// Payload without drop glue (`u32`): "dropping the last mpmc receiver discards buffered values
/// immediately" holds for it as for any other payload - a receive future that outlives the handle
/// gets None, and a sender sees a closed channel.
fn plain_payload_last_receiver(out: &mut StepOut) {
    use futures_intrusive::channel::shared::generic_channel;
    let (tx, rx) = generic_channel::<PL, u32, FixedHeapBuf<u32>>(3);
    let wr = harness::waker(W_R);
    let mut f = Box::pin(rx.receive());
    if !matches!(lib(|| tx.try_send(7)), Ok(Ok(()))) || !matches!(lib(|| tx.try_send(8)), Ok(Ok(()))) {
        out.v("C09", "script", "try_send into an empty channel of capacity 3 failed".to_string());
        return;
    }
    if let Err(p) = lib(|| drop(rx)) {
        out.v("C01", "panic", format!("dropping the last receiver panicked: {}", p));
        return;
    }
    match lib(|| f.as_mut().poll(&mut Context::from_waker(&wr))) {
        Ok(Poll::Ready(None)) => {}
        other => {
            out.v("C11", "last-receiver-keeps-values", format!("the last receiver handle was dropped with two u32 values buffered; a receive future that outlived it yields {:?} instead of None", other.map(|p| p.map(|o| o))));
            return;
        }
    }
    if !matches!(lib(|| tx.try_send(9)), Ok(Err(TrySendError::Closed(9)))) {
        out.v("C11", "last-receiver-did-not-close", "try_send succeeds although the last receiver handle was dropped".to_string());
    }
    drop(f);
}

impl System for HandleScript {
    type Op = HandleOp;
    fn new(_cfg: &Cfg) -> Self {
        HandleScript { ran: None }
    }
    fn enabled(&self) -> Vec<HandleOp> {
        if self.ran.is_some() {
            vec![]
        } else {
            (0..4).map(HandleOp::Run).collect()
        }
    }
    fn apply(&mut self, op: HandleOp, out: &mut StepOut) {
        let HandleOp::Run(i) = op;
        self.ran = Some(i);
        harness::reset_thread_state();
        match i {
            0 => mpmc_sender_clone_from(out),
            1 => mpmc_receiver_clone_from(out),
            2 => state_handles_clone_from(out),
            _ => plain_payload_last_receiver(out),
        }
        let _ = harness::take_alloc_counts();
        if out.viol.is_empty() {
            out.o("ok");
        }
    }
    fn fingerprint(&self) -> Vec<u8> {
        vec![self.ran.map_or(255, |v| v)]
    }
    fn finish(self, _out: &mut StepOut) {}
}


// ---------------------------------------------------------------------------------------------
// A waker whose clone() panics (C01, memory safety only): a future is parked with an ordinary
// waker, polled again with the panicking one (the poll may unwind), and dropped in place. Whatever
// state the unwound poll left it in, the dropped future must not remain in the wait queue - the
// next operation on the primitive would wake, i.e. read and write, a dropped future. One script per
// future type; the queue is read through the snapshot hook.

#[derive(Clone, Copy, Debug, PartialEq)]
pub enum PanicOp {
    Run(u8),
}
pub struct PanicWaker {
    ran: Option<u8>,
}

fn panic_step<F: Future + 'static>(what: &str, fut: F, queue_len: &dyn Fn() -> usize, out: &mut StepOut) {
    let mut f = harness::Pinned::new(fut);
    let w1 = harness::waker(W_R);
    match lib(|| f.pin().poll(&mut Context::from_waker(&w1)).is_pending()) {
        Ok(true) => {}
        other => {
            out.v("C01", "script", format!("{}: first poll is not pending ({:?})", what, other));
            return;
        }
    }
    if queue_len() != 1 {
        out.v("C01", "script", format!("{}: after the first poll the wait queue holds {} nodes instead of 1", what, queue_len()));
        return;
    }
    let pw = harness::panicking_waker();
    match lib(|| f.pin().poll(&mut Context::from_waker(&pw)).is_pending()) {
        Ok(_) => {}
        Err(p) if p.contains(harness::PANIC_WAKER_MSG) => {}
        Err(p) => {
            out.v("C01", "panic", format!("{}: the re-poll panicked with something else than the waker's own panic: {}", what, p));
            return;
        }
    }
    if let Err(p) = lib(|| f.kill()) {
        out.v("C01", "panic", format!("{}: dropping the future after the unwound poll panicked: {}", what, p));
        return;
    }
    let n = queue_len();
    if n != 0 {
        out.v("C01", "dangling-node", format!("{}: the future was polled with a waker whose clone() panics (the poll unwound) and then dropped; its wait node is still in the queue ({} node(s)): the next wake-up touches a dropped future", what, n));
    }
    let _ = harness::take_alloc_counts();
}

impl System for PanicWaker {
    type Op = PanicOp;
    fn new(_cfg: &Cfg) -> Self {
        PanicWaker { ran: None }
    }
    fn enabled(&self) -> Vec<PanicOp> {
        if self.ran.is_some() {
            vec![]
        } else {
            (0..9).map(PanicOp::Run).collect()
        }
    }
    fn apply(&mut self, op: PanicOp, out: &mut StepOut) {
        use futures_intrusive::channel::shared as sh;
        use futures_intrusive::channel::StateId;
        let PanicOp::Run(i) = op;
        self.ran = Some(i);
        harness::reset_thread_state();
        let tag_of = |t: &Tag| t.0 as u64;
        match i {
            0 => {
                let (tx, rx) = sh::generic_channel::<PL, Tag, FixedHeapBuf<Tag>>(1);
                let v = tx.verif_shared();
                panic_step("shared mpmc receive future", rx.receive(), &|| v.verif_snapshot(&tag_of).map_or(0, |s| s.queues[0].len()), out);
                std::mem::forget((tx, rx));
            }
            1 => {
                let (tx, rx) = sh::generic_channel::<PL, Tag, FixedHeapBuf<Tag>>(0);
                let v = tx.verif_shared();
                panic_step("shared mpmc send future", tx.send(Tag(1)), &|| v.verif_snapshot(&tag_of).map_or(0, |s| s.queues[1].len()), out);
                std::mem::forget((tx, rx));
            }
            2 => {
                let (tx, rx) = sh::generic_oneshot_channel::<PL, Tag>();
                let v = tx.verif_shared();
                panic_step("shared oneshot receive future", rx.receive(), &|| v.verif_snapshot(&tag_of).map_or(0, |s| s.queues[0].len()), out);
                std::mem::forget((tx, rx));
            }
            3 => {
                let (tx, rx) = sh::generic_oneshot_broadcast_channel::<PL, u32>();
                let v = tx.verif_shared();
                panic_step("shared oneshot broadcast receive future", rx.receive(), &|| v.verif_snapshot(&|x: &u32| *x as u64).map_or(0, |s| s.queues[0].len()), out);
                std::mem::forget((tx, rx));
            }
            4 => {
                let (tx, rx) = sh::generic_state_broadcast_channel::<PL, u32>();
                let v = tx.verif_shared();
                panic_step("shared state receive future", rx.receive(StateId::new()), &|| v.verif_snapshot(&|x: &u32| *x as u64).map_or(0, |s| s.queues[0].len()), out);
                std::mem::forget((tx, rx));
            }
            5 => {
                let s = futures_intrusive::sync::GenericSharedSemaphore::<PL>::new(false, 0);
                let s2 = s.clone();
                panic_step("shared semaphore acquire future", s.acquire(1), &|| s2.verif_snapshot().queues[0].len(), out);
                std::mem::forget((s, s2));
            }
            6 => {
                let c: &'static GenericChannel<PL, Tag, FixedHeapBuf<Tag>> = Box::leak(Box::new(GenericChannel::with_capacity(1)));
                panic_step("borrowed mpmc receive future", c.receive(), &|| c.verif_snapshot(&tag_of).queues[0].len(), out);
            }
            7 => {
                let m: &'static futures_intrusive::sync::GenericMutex<PL, u32> = Box::leak(Box::new(futures_intrusive::sync::GenericMutex::new(0, true)));
                let g = m.try_lock().expect("fresh mutex");
                panic_step("mutex lock future", m.lock(), &|| m.verif_snapshot().queues[0].len(), out);
                std::mem::forget(g);
            }
            _ => {
                let e: &'static futures_intrusive::sync::GenericManualResetEvent<PL> = Box::leak(Box::new(futures_intrusive::sync::GenericManualResetEvent::new(false)));
                panic_step("event wait future", e.wait(), &|| e.verif_snapshot().queues[0].len(), out);
            }
        }
        if out.viol.is_empty() {
            out.o("ok");
        }
    }
    fn fingerprint(&self) -> Vec<u8> {
        vec![self.ran.map_or(255, |v| v)]
    }
    fn finish(self, _out: &mut StepOut) {}
}
