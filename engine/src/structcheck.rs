//! C01 structural oracle shared by all systems: the primitive-side queue /
//! heap (read through the snapshot hook, by node address) must contain only
//! live futures that are waiting at the API level, each at most once, no node
//! of a dropped future and no unknown node; and every waiting future that has
//! not been handed a wake-up since its last poll must be in it. The oracle
//! deliberately does not depend on the implementation's private poll-state
//! tags, so a refactoring that changes when notified waiters are unlinked does
//! not trip it.

use crate::core::StepOut;
use futures_intrusive::verif::NodeSnap;

pub struct LiveNode {
    pub group: usize,
    pub slot: usize,
    pub node: NodeSnap,
    /// API-level facts kept by the harness (not the implementation's own poll state):
    /// the future was polled, its last poll returned Pending, it is not dropped
    pub pending: bool,
    /// some waker handed to this future was invoked since its last poll
    pub woken: bool,
}

impl LiveNode {
    pub fn new(group: usize, slot: usize, node: NodeSnap, m: &crate::harness::Meta) -> LiveNode {
        LiveNode { group, slot, node, pending: m.pending(), woken: crate::harness::fresh(group, slot, m) || crate::harness::stale_wake(group, slot, m) }
    }
}

/// Returns for every queue position the (group, slot) of the future it belongs to.
pub fn check_queue(
    qname: &str,
    queue: &[NodeSnap],
    live: &[LiveNode],
    dead: &[(usize, usize)],
    out: &mut StepOut,
) -> Vec<Option<(usize, usize)>> {
    let mut owners = vec![];
    let mut seen_addr: Vec<usize> = vec![];
    for (pos, n) in queue.iter().enumerate() {
        if seen_addr.contains(&n.addr) {
            out.v("C01", "node-twice", format!("{}: node {:#x} appears twice (position {})", qname, n.addr, pos));
            out.corrupt = true;
        }
        seen_addr.push(n.addr);
        match live.iter().find(|l| l.node.addr == n.addr) {
            Some(l) => {
                // "contains exactly the futures that are alive and currently waiting": a member
                // must be a future that is pending at the API level (polled, last poll returned
                // Pending, not dropped) - never one that has completed or was never polled
                if !l.pending {
                    out.v("C01", "unexpected-member", format!("{}: position {} holds the future (group {}, slot {}) which is not waiting (never polled, or already completed); its poll state is {}", qname, pos, l.group, l.slot, l.node.tag));
                    out.corrupt = true;
                }
                owners.push(Some((l.group, l.slot)));
            }
            None => {
                if dead.iter().any(|r| n.addr >= r.0 && n.addr < r.1) {
                    out.v("C01", "dangling-node", format!("{}: position {} is the wait node {:#x} of a future that was dropped", qname, pos, n.addr));
                } else {
                    out.v("C01", "unknown-node", format!("{}: position {} is node {:#x} which belongs to no future of the harness", qname, pos, n.addr));
                }
                out.corrupt = true;
                owners.push(None);
            }
        }
    }
    owners
}

/// Every live future that says it is linked must be in (exactly) one of the queues. (That the node of
/// an unlinked future carries no links is a property of the list / heap module - C20 - and is
/// deliberately not demanded here: C01 speaks about queue membership only.)
pub fn check_membership(queues: &[&[NodeSnap]], live: &[LiveNode], out: &mut StepOut) {
    for l in live {
        let n = queues.iter().map(|q| q.iter().filter(|x| x.addr == l.node.addr).count()).sum::<usize>();
        // a waiting future may be absent from the queue only if it has been handed a wake-up since
        // its last poll (notified / fulfilled / expired waiters are unlinked by several primitives);
        // a waiting future that is neither queued nor woken can never be reached again
        if l.pending && !l.woken && n == 0 {
            out.v("C01", "missing-member", format!("future (group {}, slot {}) is waiting (last poll returned Pending, no wake-up since) but is not in the wait queue; its poll state is {}", l.group, l.slot, l.node.tag));
            out.corrupt = true;
        }
    }
}

pub fn check_errors(errors: &[&'static str], out: &mut StepOut) {
    for e in errors {
        out.v("C01", "links-inconsistent", e.to_string());
        out.corrupt = true;
    }
}

/// waker code of a stored waker relative to its owner: 0 none, 1 = own A,
/// 2 = own B, 3 = foreign
pub fn waker_code(w: Option<usize>, group: usize, slot: usize) -> u8 {
    match w {
        None => 0,
        Some(id) if id == crate::harness::wid(group, slot, 0) => 1,
        Some(id) if id == crate::harness::wid(group, slot, 1) => 2,
        Some(_) => 3,
    }
}
