//! C01 structural oracle shared by all systems: the primitive-side queue /
//! heap (read through the snapshot hook) must contain exactly the live futures
//! whose own poll state says "linked", each once, and nothing else.

use crate::core::StepOut;
use futures_intrusive::verif::NodeSnap;

pub struct LiveNode {
    pub group: usize,
    pub slot: usize,
    pub node: NodeSnap,
    pub linked_expected: bool,
}

/// Returns for every queue position the (group, slot) of the future it belongs to.
pub fn check_queue(
    qname: &str,
    queue: &[NodeSnap],
    live: &[LiveNode],
    dead: &[(usize, usize)],
    out: &mut StepOut,
) -> Vec<Option<(usize, usize)>> {
    let mut owners = vec![];
    let mut seen_addr: Vec<usize> = vec![];
    for (pos, n) in queue.iter().enumerate() {
        if seen_addr.contains(&n.addr) {
            out.v("C01", "node-twice", format!("{}: node {:#x} appears twice (position {})", qname, n.addr, pos));
            out.corrupt = true;
        }
        seen_addr.push(n.addr);
        match live.iter().find(|l| l.node.addr == n.addr) {
            Some(l) => {
                if !l.linked_expected {
                    out.v("C01", "unexpected-member", format!("{}: position {} holds future (group {}, slot {}) whose poll state {} says it is not linked", qname, pos, l.group, l.slot, l.node.tag));
                    out.corrupt = true;
                }
                owners.push(Some((l.group, l.slot)));
            }
            None => {
                if dead.iter().any(|r| n.addr >= r.0 && n.addr < r.1) {
                    out.v("C01", "dangling-node", format!("{}: position {} is the wait node {:#x} of a future that was dropped", qname, pos, n.addr));
                } else {
                    out.v("C01", "unknown-node", format!("{}: position {} is node {:#x} which belongs to no future of the harness", qname, pos, n.addr));
                }
                out.corrupt = true;
                owners.push(None);
            }
        }
    }
    owners
}

/// Every live future that says it is linked must be in (exactly) one of the queues. (That the node of
/// an unlinked future carries no links is a property of the list / heap module - C20 - and is
/// deliberately not demanded here: C01 speaks about queue membership only.)
pub fn check_membership(queues: &[&[NodeSnap]], live: &[LiveNode], out: &mut StepOut) {
    for l in live {
        let n = queues.iter().map(|q| q.iter().filter(|x| x.addr == l.node.addr).count()).sum::<usize>();
        if l.linked_expected && n == 0 {
            out.v("C01", "missing-member", format!("future (group {}, slot {}) is in poll state {} (linked) but is not in the wait queue", l.group, l.slot, l.node.tag));
            out.corrupt = true;
        }
    }
}

pub fn check_errors(errors: &[&'static str], out: &mut StepOut) {
    for e in errors {
        out.v("C01", "links-inconsistent", e.to_string());
        out.corrupt = true;
    }
}

/// waker code of a stored waker relative to its owner: 0 none, 1 = own A,
/// 2 = own B, 3 = foreign
pub fn waker_code(w: Option<usize>, group: usize, slot: usize) -> u8 {
    match w {
        None => 0,
        Some(id) if id == crate::harness::wid(group, slot, 0) => 1,
        Some(id) if id == crate::harness::wid(group, slot, 1) => 2,
        Some(_) => 3,
    }
}
