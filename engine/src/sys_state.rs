//! E-SEQ system: state broadcast channel (borrowed local / parking_lot / shared).
//! Monitors: C01, C11, C13, C17, C18.

use crate::core::{Cfg, StepOut, System};
use crate::harness::{self, ctag_of, fresh, lib, sample_seen, stale_wake, wid, CTag, Meta, Pinned};
use crate::structcheck::{self, LiveNode};
use futures_core::future::FusedFuture;
use futures_intrusive::channel::shared as sh;
use futures_intrusive::channel::{CloseStatus, GenericStateBroadcastChannel, StateId, StateReceiveFuture};
use futures_intrusive::verif::{NodeSnap, Snapshot, NO_VALUE};
use lock_api::RawMutex;
use std::future::Future;
use std::marker::PhantomData;
use std::task::{Context, Poll};

pub trait Flavor: 'static {
    const SHARED: bool;
    type Chan;
    type Fut: Future<Output = Option<(StateId, CTag)>> + FusedFuture;
    fn new() -> Self::Chan;
    fn send(c: &Self::Chan, v: CTag) -> Result<(), CTag>;
    fn close(c: &Self::Chan) -> CloseStatus;
    fn receive(c: &Self::Chan, id: StateId) -> Self::Fut;
    fn try_receive(c: &Self::Chan, id: StateId) -> Option<(StateId, CTag)>;
    fn snapshot(c: &Self::Chan) -> Snapshot;
    fn node(f: &Self::Fut) -> NodeSnap;
    fn debug(c: &Self::Chan) -> String;
    fn node_debug(f: &Self::Fut) -> String;
    /// shared flavour: number of owners (handles, futures) of the shared state
    fn owners(_c: &Self::Chan) -> Option<usize> {
        None
    }
    fn senders(_c: &Self::Chan) -> usize {
        1
    }
    fn receivers(_c: &Self::Chan) -> usize {
        1
    }
    fn drop_sender(_c: &mut Self::Chan) {}
    fn clone_sender(_c: &mut Self::Chan) {}
    fn drop_receiver(_c: &mut Self::Chan) {}
    fn clone_receiver(_c: &mut Self::Chan) {}
}

pub struct Borrowed<M>(PhantomData<M>);
pub struct Shared<M>(PhantomData<M>);

impl<M: RawMutex + 'static> Flavor for Borrowed<M> {
    const SHARED: bool = false;
    type Chan = Box<GenericStateBroadcastChannel<M, CTag>>;
    type Fut = StateReceiveFuture<'static, M, CTag>;
    fn new() -> Self::Chan {
        Box::new(GenericStateBroadcastChannel::new())
    }
    fn send(c: &Self::Chan, v: CTag) -> Result<(), CTag> {
        c.send(v).map_err(|e| e.0)
    }
    fn close(c: &Self::Chan) -> CloseStatus {
        c.close()
    }
    fn receive(c: &Self::Chan, id: StateId) -> Self::Fut {
        let r: &'static GenericStateBroadcastChannel<M, CTag> = unsafe { &*(&**c as *const _) };
        r.receive(id)
    }
    fn try_receive(c: &Self::Chan, id: StateId) -> Option<(StateId, CTag)> {
        c.try_receive(id)
    }
    fn snapshot(c: &Self::Chan) -> Snapshot {
        c.verif_snapshot(&ctag_of)
    }
    fn node(f: &Self::Fut) -> NodeSnap {
        f.verif_node()
    }
    fn debug(c: &Self::Chan) -> String {
        c.verif_debug()
    }
    fn node_debug(f: &Self::Fut) -> String {
        f.verif_node_debug()
    }
}

pub struct SChan<M: RawMutex + 'static> {
    tx: Vec<sh::GenericStateSender<M, CTag>>,
    rx: Vec<sh::GenericStateReceiver<M, CTag>>,
    vref: sh::VerifSharedState<M, CTag>,
}

impl<M: RawMutex + std::fmt::Debug + 'static> Flavor for Shared<M> {
    const SHARED: bool = true;
    type Chan = SChan<M>;
    type Fut = sh::StateReceiveFuture<M, CTag>;
    fn new() -> Self::Chan {
        let (tx, rx) = sh::generic_state_broadcast_channel::<M, CTag>();
        let vref = tx.verif_shared();
        { let mut txs = Vec::with_capacity(8); txs.push(tx); let mut rxs = Vec::with_capacity(8); rxs.push(rx); SChan { tx: txs, rx: rxs, vref } }
    }
    fn send(c: &Self::Chan, v: CTag) -> Result<(), CTag> {
        c.tx[0].send(v).map_err(|e| e.0)
    }
    fn close(_c: &Self::Chan) -> CloseStatus {
        unreachable!()
    }
    fn receive(c: &Self::Chan, id: StateId) -> Self::Fut {
        c.rx[0].receive(id)
    }
    fn try_receive(c: &Self::Chan, id: StateId) -> Option<(StateId, CTag)> {
        c.rx[0].try_receive(id)
    }
    fn snapshot(c: &Self::Chan) -> Snapshot {
        c.vref.verif_snapshot(&ctag_of).unwrap_or_else(|| {
            let mut sn = Snapshot::default();
            sn.scalars = vec![1, 0, NO_VALUE, 0, 0];
            sn.queues = vec![vec![]];
            sn
        })
    }
    fn owners(c: &Self::Chan) -> Option<usize> {
        Some(c.vref.verif_owners())
    }
    fn node(f: &Self::Fut) -> NodeSnap {
        f.verif_node()
    }
    fn debug(c: &Self::Chan) -> String {
        c.vref.verif_debug().unwrap_or_default()
    }
    fn node_debug(f: &Self::Fut) -> String {
        f.verif_node_debug()
    }
    fn senders(c: &Self::Chan) -> usize {
        c.tx.len()
    }
    fn receivers(c: &Self::Chan) -> usize {
        c.rx.len()
    }
    fn drop_sender(c: &mut Self::Chan) {
        c.tx.pop();
    }
    fn clone_sender(c: &mut Self::Chan) {
        let n = c.tx[0].clone();
        c.tx.push(n);
    }
    fn drop_receiver(c: &mut Self::Chan) {
        c.rx.pop();
    }
    fn clone_receiver(c: &mut Self::Chan) {
        let n = c.rx[0].clone();
        c.rx.push(n);
    }
}

#[derive(Clone, Copy, Debug, PartialEq)]
pub enum Op {
    /// Create(slot, j): receive(id) with id = StateId::new() for j = 0, else the
    /// id that was observed for publication j-1
    Create(u8, u8),
    Poll(u8, u8),
    PollDone(u8),
    DropFut(u8),
    TryReceive(u8),
    Send,
    Close,
    DropSender,
    CloneSender,
    DropReceiver,
    CloneReceiver,
}

struct Slot<F: Flavor> {
    fut: Pinned<F::Fut>,
    meta: Meta,
    /// number of publications the requested id covers (0 = StateId::new())
    req: usize,
}

pub struct Sys<F: Flavor> {
    slots: Vec<Option<Slot<F>>>,
    graveyard: Vec<Pinned<F::Fut>>,
    dead: Vec<(usize, usize)>,
    chan: F::Chan,
    k: usize,
    budget: u8,
    /// publication log: (tag, id once observed)
    log: Vec<(u8, Option<StateId>)>,
    next_tag: u8,
    closed: bool,
    close_calls: u8,
    max_handles: usize,
    symmetry: bool,
    /// an id that is ahead of everything this channel will ever publish (taken from another
    /// channel that has seen more updates): letter `AHEAD` of the id alphabet, if enabled
    ahead: Option<StateId>,
}

const G: usize = 0;
/// id letter for "an id from a channel that is ahead of this one"; such a request covers every
/// publication (`AHEAD_REQ`)
const AHEAD: u8 = 250;
const AHEAD_REQ: usize = 1000;
fn req_of(j: u8) -> usize {
    if j == AHEAD {
        AHEAD_REQ
    } else {
        j as usize
    }
}

impl<F: Flavor> Sys<F> {
    fn id_for(&self, j: usize) -> Option<StateId> {
        if j == AHEAD as usize || j == AHEAD_REQ {
            return self.ahead;
        }
        if j == 0 {
            Some(StateId::new())
        } else {
            self.log.get(j - 1).and_then(|e| e.1)
        }
    }

    fn live_nodes(&self) -> Vec<LiveNode> {
        let mut v = vec![];
        for (i, s) in self.slots.iter().enumerate() {
            if let Some(s) = s {
                let node = F::node(s.fut.get());
                v.push(LiveNode::new(G, i, node, &s.meta));
            }
        }
        v
    }

    /// checks an observed (id, tag) result for a request that covers `req` publications
    fn on_result(&mut self, who: &str, req: usize, id: StateId, tag: u8, out: &mut StepOut) {
        let n = self.log.len();
        if n == 0 {
            out.v("C13", "value-from-nowhere", format!("{} yielded ({:?}, {}) although nothing was published", who, id, tag));
            return;
        }
        if req >= n {
            out.v("C13", "not-newer", format!("{} completed with ({:?}, {}) although the requested id already covers the latest publication ({} of {})", who, id, tag, req, n));
        }
        if self.log[n - 1].0 != tag {
            out.v("C13", "not-latest", format!("{} yielded value {} but the most recently published state is {}", who, tag, self.log[n - 1].0));
        }
        match self.log[n - 1].1 {
            Some(known) => {
                if known != id {
                    out.v("C13", "id-changed", format!("{} yielded id {:?} for the latest publication, an earlier observation yielded {:?}", who, id, known));
                }
            }
            None => {
                for j in 0..n - 1 {
                    if let Some(earlier) = self.log[j].1 {
                        if !(id > earlier) {
                            out.v("C13", "id-not-increasing", format!("{}: id {:?} of publication {} is not larger than id {:?} of earlier publication {}", who, id, n - 1, earlier, j));
                        }
                    }
                }
                if !(id > StateId::new()) {
                    out.v("C13", "id-not-increasing", format!("{}: id {:?} of a publication is not larger than StateId::new()", who, id));
                }
                self.log[n - 1].1 = Some(id);
            }
        }
        if let Some(rid) = self.id_for(req) {
            if req < n && !(id > rid) {
                out.v("C13", "id-not-larger-than-requested", format!("{}: returned id {:?} is not larger than the requested id {:?}", who, id, rid));
            }
        }
    }

    fn invariants(&mut self, out: &mut StepOut) {
        let (na, mut nf) = harness::take_alloc_counts();
        if F::owners(&self.chan) == Some(0) {
            // this step dropped the last owner of the shared state: freeing it is destruction
            nf = 0;
        }
        if na + nf > 0 {
            out.p("C18", "alloc-in-call", format!("{} allocations / {} frees inside library calls of this step", na, nf));
        }
        let snap = F::snapshot(&self.chan);
        let live = self.live_nodes();
        structcheck::check_errors(&snap.errors, out);
        structcheck::check_queue("waiters", &snap.queues[0], &live, &self.dead, out);
        structcheck::check_membership(&[&snap.queues[0]], &live, out);
        let n = self.log.len();
        for (i, s) in self.slots.iter().enumerate() {
            if let Some(s) = s {
                if s.fut.get().is_terminated() != s.meta.done {
                    out.p("C17", "is-terminated", format!("slot {}: is_terminated()={} but completed={}", i, s.fut.get().is_terminated(), s.meta.done));
                }
                if s.meta.pending() && !fresh(G, i, &s.meta) {
                    if s.req < n {
                        out.p("C13", "send-did-not-wake", format!("slot {}: a state newer than the requested one was published while this receiver was pending, but it has not been woken through the waker of its latest poll", i));
                    } else if self.closed {
                        // C11, and C13: "a receiver waiting for something newer is woken by the next send or by close"
                        for p in ["C11", "C13"] {
                            out.p(p, "pending-not-woken", format!("slot {}: the channel was closed while this receiver was pending, but it has not been woken through the waker of its latest poll", i));
                        }
                    }
                }
            }
        }
        let impl_closed = snap.scalars[0] != 0;
        if impl_closed != self.closed {
            out.v("C11", "closedness", format!("channel is {} but explicit close and handle counts (senders={}, receivers={}) say it must be {}", if impl_closed { "closed" } else { "open" }, F::senders(&self.chan), F::receivers(&self.chan), if self.closed { "closed" } else { "open" }));
        }
    }
}

impl<F: Flavor> System for Sys<F> {
    type Op = Op;

    fn new(cfg: &Cfg) -> Self {
        let k = cfg.get("k") as usize;
        Sys {
            slots: (0..k).map(|_| None).collect(),
            graveyard: vec![],
            dead: vec![],
            chan: F::new(),
            k,
            budget: cfg.get_or("sends", 3) as u8,
            log: vec![],
            next_tag: 0,
            closed: false,
            close_calls: 0,
            max_handles: cfg.get_or("handles", 2) as usize,
            symmetry: cfg.get_or("symmetry", 1) != 0,
            ahead: if cfg.flag("foreign") {
                let other = futures_intrusive::channel::LocalStateBroadcastChannel::<u8>::new();
                for x in 0..cfg.get_or("sends", 3) as u8 + 2 {
                    let _ = other.send(x);
                }
                other.try_receive(StateId::new()).map(|r| r.0)
            } else {
                None
            },
        }
    }

    fn enabled(&self) -> Vec<Op> {
        let mut v = vec![];
        let mut created = false;
        let have_rx = F::receivers(&self.chan) > 0;
        for i in 0..self.k {
            match &self.slots[i] {
                None => {
                    if !(self.symmetry && created) && have_rx {
                        for j in 0..=self.log.len() {
                            if self.id_for(j).is_some() {
                                v.push(Op::Create(i as u8, j as u8));
                            }
                        }
                        if self.ahead.is_some() {
                            v.push(Op::Create(i as u8, AHEAD));
                        }
                        created = true;
                    }
                }
                Some(s) => {
                    if !s.meta.done {
                        v.push(Op::Poll(i as u8, 0));
                        v.push(Op::Poll(i as u8, 1));
                    } else if !s.meta.repolled {
                        v.push(Op::PollDone(i as u8));
                    }
                    v.push(Op::DropFut(i as u8));
                }
            }
        }
        if have_rx {
            for j in 0..=self.log.len() {
                if self.id_for(j).is_some() {
                    v.push(Op::TryReceive(j as u8));
                }
            }
            if self.ahead.is_some() {
                v.push(Op::TryReceive(AHEAD));
            }
        }
        if self.next_tag < self.budget && F::senders(&self.chan) > 0 {
            v.push(Op::Send);
        }
        if !F::SHARED {
            if self.close_calls < 2 {
                v.push(Op::Close);
            }
        } else {
            let (s, r) = (F::senders(&self.chan), F::receivers(&self.chan));
            if s > 0 {
                v.push(Op::DropSender);
                if s < self.max_handles {
                    v.push(Op::CloneSender);
                }
            }
            if r > 0 {
                v.push(Op::DropReceiver);
                if r < self.max_handles {
                    v.push(Op::CloneReceiver);
                }
            }
        }
        v
    }

    fn apply(&mut self, op: Op, out: &mut StepOut) {
        let wakes_before = harness::all_wakes();
        match op {
            Op::Create(i, j) => {
                let i = i as usize;
                let id = self.id_for(j as usize).unwrap();
                match lib(|| F::receive(&self.chan, id)) {
                    Ok(f) => {
                        let mut meta = Meta::default();
                        meta.seen = sample_seen(G, i);
                        self.slots[i] = Some(Slot { fut: Pinned::new(f), meta, req: req_of(j) });
                    }
                    Err(p) => out.v("C01", "panic", format!("receive() panicked: {}", p)),
                }
            }
            Op::Poll(i, w) => {
                let i = i as usize;
                let seen = sample_seen(G, i);
                let waker = harness::waker(wid(G, i, w));
                let s = self.slots[i].as_mut().unwrap();
                let req = s.req;
                let r = lib(|| s.fut.pin().poll(&mut Context::from_waker(&waker)));
                s.meta.polled = true;
                s.meta.last = w;
                s.meta.seen = seen;
                match r {
                    Err(p) => {
                        out.v("C01", "panic", format!("poll of slot {} panicked: {}", i, p));
                        out.corrupt = true;
                        s.meta.done = true;
                    }
                    Ok(Poll::Ready(Some((id, v)))) => {
                        out.o(&format!("Some({})", v.0));
                        s.meta.done = true;
                        self.on_result(&format!("receive of slot {}", i), req, id, v.0, out);
                    }
                    Ok(Poll::Ready(None)) => {
                        out.o("None");
                        s.meta.done = true;
                        if !self.closed {
                            out.v("C11", "none-on-open-channel", format!("receive of slot {} yielded None although the channel is open", i));
                        } else if req < self.log.len() {
                            out.v("C13", "none-despite-newer-state", format!("receive of slot {} yielded None after close although it has not seen the latest state", i));
                        }
                    }
                    Ok(Poll::Pending) => {
                        out.o("Pending");
                        if req < self.log.len() {
                            out.v("C13", "pending-despite-newer-state", format!("receive of slot {} returned Pending although a state newer than the requested id is published", i));
                        } else if self.closed {
                            out.v("C11", "pending-on-closed-channel", format!("receive of slot {} returned Pending although the channel is closed", i));
                        }
                    }
                }
            }
            Op::PollDone(i) => {
                let i = i as usize;
                let waker = harness::waker(wid(G, i, 0));
                let s = self.slots[i].as_mut().unwrap();
                let r = lib(|| s.fut.pin().poll(&mut Context::from_waker(&waker)).map(|v| v.map(|x| x.1 .0)));
                s.meta.repolled = true;
                match r {
                    Err(_) => out.o("panicked"),
                    Ok(p) => out.v("C17", "poll-after-completion", format!("polling the completed receive future of slot {} returned {:?} instead of panicking", i, p)),
                }
            }
            Op::DropFut(i) => {
                let mut s = self.slots[i as usize].take().unwrap();
                let range = s.fut.range();
                if let Err(p) = lib(|| s.fut.kill()) {
                    out.v("C01", "panic", format!("dropping the future of slot {} panicked: {}", i, p));
                    out.corrupt = true;
                }
                s.fut.release_memory_if_requested();
                self.dead.push(range);
                self.graveyard.push(s.fut);
            }
            Op::TryReceive(j) => {
                let id = self.id_for(j as usize).unwrap();
                match lib(|| F::try_receive(&self.chan, id)) {
                    Err(p) => out.v("C01", "panic", format!("try_receive() panicked: {}", p)),
                    Ok(Some((rid, v))) => {
                        out.o(&format!("Some({})", v.0));
                        self.on_result("try_receive", req_of(j), rid, v.0, out);
                    }
                    Ok(None) => {
                        out.o("None");
                        if req_of(j) < self.log.len() {
                            out.v("C13", "none-despite-newer-state", format!("try_receive returned None although a state newer than the requested id (covers {} of {} publications) is published", j, self.log.len()));
                        }
                    }
                }
            }
            Op::Send => {
                let t = self.next_tag;
                self.next_tag += 1;
                match lib(|| F::send(&self.chan, CTag(t))) {
                    Err(p) => out.v("C01", "panic", format!("send() panicked: {}", p)),
                    Ok(Ok(())) => {
                        out.o("Ok");
                        if self.closed {
                            out.v("C11", "send-accepted-when-closed", format!("send({}) succeeded although the channel is closed", t));
                        }
                        self.log.push((t, None));
                    }
                    Ok(Err(v)) => {
                        out.o("Err");
                        if v.0 != t {
                            out.v("C11", "foreign-value-returned", format!("send({}) failed and handed back value {}", t, v.0));
                        }
                    }
                }
            }
            Op::Close => {
                self.close_calls += 1;
                match lib(|| F::close(&self.chan)) {
                    Err(p) => out.v("C01", "panic", format!("close() panicked: {}", p)),
                    Ok(st) => {
                        out.o(&format!("{:?}", st));
                        let expect = if self.closed { CloseStatus::AlreadyClosed } else { CloseStatus::NewlyClosed };
                        if st != expect {
                            out.v("C11", "close-status", format!("close() returned {:?}, expected {:?}", st, expect));
                        }
                        self.closed = true;
                    }
                }
            }
            Op::DropSender => {
                if let Err(p) = lib(|| F::drop_sender(&mut self.chan)) {
                    out.v("C01", "panic", format!("dropping a sender panicked: {}", p));
                }
                if F::senders(&self.chan) == 0 {
                    self.closed = true;
                }
            }
            Op::CloneSender => {
                if let Err(p) = lib(|| F::clone_sender(&mut self.chan)) {
                    out.v("C01", "panic", format!("cloning a sender panicked: {}", p));
                }
            }
            Op::DropReceiver => {
                if let Err(p) = lib(|| F::drop_receiver(&mut self.chan)) {
                    out.v("C01", "panic", format!("dropping a receiver panicked: {}", p));
                }
                if F::receivers(&self.chan) == 0 {
                    self.closed = true;
                }
            }
            Op::CloneReceiver => {
                if let Err(p) = lib(|| F::clone_receiver(&mut self.chan)) {
                    out.v("C01", "panic", format!("cloning a receiver panicked: {}", p));
                }
            }
        }
        let wakes_after = harness::all_wakes();
        let woken: Vec<usize> = (0..harness::MAX_WAKERS).filter(|&w| wakes_after[w] > wakes_before[w]).collect();
        if !woken.is_empty() {
            out.o(&format!("woke{:?}", woken));
        }
        self.invariants(out);
    }

    fn fingerprint(&self) -> Vec<u8> {
        let snap = F::snapshot(&self.chan);
        let mut v = vec![
            snap.scalars[0] as u8,
            snap.scalars[1] as u8,
            if snap.scalars[2] == NO_VALUE { 255 } else { snap.scalars[2] as u8 },
            self.closed as u8,
            self.next_tag,
            self.close_calls,
            F::senders(&self.chan) as u8,
            F::receivers(&self.chan) as u8,
        ];
        for e in &self.log {
            v.push(e.0);
            v.push(e.1.map_or(255, |id| id.verif_raw() as u8));
        }
        v.push(252);
        let mut recs: Vec<Vec<u8>> = vec![];
        for i in 0..self.k {
            match &self.slots[i] {
                None => recs.push(vec![255]),
                Some(s) => {
                    let mut r = vec![s.meta.polled as u8, s.meta.done as u8, s.meta.repolled as u8, s.req as u8];
                    if s.meta.pending() {
                        r.push(s.meta.last);
                        r.push(fresh(G, i, &s.meta) as u8);
                        r.push(stale_wake(G, i, &s.meta) as u8);
                    } else {
                        r.extend([9, 9, 9]);
                    }
                    let n = F::node(s.fut.get());
                    r.push(n.tag);
                    r.push(n.extra as u8);
                    r.push(structcheck::waker_code(n.waker, G, i));
                    r.push(snap.queues[0].iter().position(|q| q.addr == n.addr).map_or(200, |p| p as u8));
                    r.push(s.fut.get().is_terminated() as u8);
                    r.extend(harness::norm(&F::node_debug(s.fut.get())));
                    recs.push(r);
                }
            }
        }
        if self.symmetry {
            recs.sort();
        }
        for r in recs {
            v.extend(r);
            v.push(253);
        }
        v.extend(harness::norm(&F::debug(&self.chan)));
        v
    }

    fn finish(self, _out: &mut StepOut) {}
}
