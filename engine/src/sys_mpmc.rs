//! E-SEQ system: mpmc channel (local / parking_lot array-backed, borrowed
//! FixedHeapBuf, shared GrowingHeapBuf / FixedHeapBuf handles), with send
//! futures (poll, drop, cancel), receive futures, one stream consumer,
//! try_send / try_receive / close and handle clone/drop.
//! Monitors: C01, C08, C09, C10, C11, C17, C18.

use crate::core::{Cfg, StepOut, System};
use crate::harness::{self, drops, fresh, lib, sample_seen, stale_wake, tag_of, wid, Meta, Pinned, Tag};
use crate::structcheck::{self, LiveNode};
use futures_core::future::FusedFuture;
use futures_core::stream::{FusedStream, Stream};
use futures_intrusive::buffer::{ArrayBuf, FixedHeapBuf, GrowingHeapBuf, RingBuf};
use futures_intrusive::channel::shared as sh;
use futures_intrusive::channel::{
    ChannelReceiveFuture, ChannelSendError, ChannelSendFuture, ChannelStream, CloseStatus, GenericChannel, TryReceiveError,
    TrySendError,
};
use futures_intrusive::verif::{NodeSnap, Snapshot, NO_VALUE};
use lock_api::RawMutex;
use std::future::Future;
use std::marker::PhantomData;
use std::pin::Pin;
use std::task::{Context, Poll};

pub trait Flavor: 'static {
    const SHARED: bool;
    const GROWING: bool;
    type Chan;
    type SF: Future<Output = Result<(), ChannelSendError<Tag>>> + FusedFuture;
    type RF: Future<Output = Option<Tag>> + FusedFuture;
    type St: Stream<Item = Tag> + FusedStream;
    fn new(cap: usize) -> Self::Chan;
    fn send(c: &Self::Chan, v: Tag) -> Self::SF;
    fn receive(c: &Self::Chan) -> Self::RF;
    fn stream(c: &Self::Chan) -> Self::St;
    fn try_send(c: &Self::Chan, v: Tag) -> Result<(), TrySendError<Tag>>;
    fn try_receive(c: &Self::Chan) -> Result<Tag, TryReceiveError>;
    /// `side`: 0 = through a sender handle (or the channel), 1 = through a receiver handle
    fn close(c: &Self::Chan, side: u8) -> CloseStatus;
    fn cancel(f: Pin<&mut Self::SF>) -> Option<Tag>;
    fn snapshot(c: &Self::Chan) -> Snapshot;
    fn send_node(f: &Self::SF) -> NodeSnap;
    fn recv_node(f: &Self::RF) -> NodeSnap;
    fn stream_node(s: &Self::St) -> Option<NodeSnap>;
    /// shared flavours: number of owners (handles, futures, streams) of the shared state
    fn owners(_c: &Self::Chan) -> Option<usize> {
        None
    }
    /// close() through the stream object, where the flavour has one
    fn close_stream(_s: &Self::St) -> Option<CloseStatus> {
        None
    }
    fn debug(c: &Self::Chan) -> String;
    fn send_node_debug(f: &Self::SF) -> String;
    fn recv_node_debug(f: &Self::RF) -> String;
    fn senders(_c: &Self::Chan) -> usize {
        1
    }
    fn receivers(_c: &Self::Chan) -> usize {
        1
    }
    fn drop_sender(_c: &mut Self::Chan) {}
    fn clone_sender(_c: &mut Self::Chan) {}
    fn drop_receiver(_c: &mut Self::Chan) {}
    fn clone_receiver(_c: &mut Self::Chan) {}
}

/// borrowed channel over any ring buffer
pub struct Borrowed<M, A>(PhantomData<(M, A)>);

impl<M: RawMutex + 'static, A: RingBuf<Item = Tag> + std::fmt::Debug + 'static> Flavor for Borrowed<M, A> {
    const SHARED: bool = false;
    const GROWING: bool = false;
    type Chan = Box<GenericChannel<M, Tag, A>>;
    type SF = ChannelSendFuture<'static, M, Tag>;
    type RF = ChannelReceiveFuture<'static, M, Tag>;
    type St = ChannelStream<'static, M, Tag, A>;
    fn new(cap: usize) -> Self::Chan {
        Box::new(GenericChannel::with_capacity(cap))
    }
    fn send(c: &Self::Chan, v: Tag) -> Self::SF {
        let r: &'static GenericChannel<M, Tag, A> = unsafe { &*(&**c as *const _) };
        r.send(v)
    }
    fn receive(c: &Self::Chan) -> Self::RF {
        let r: &'static GenericChannel<M, Tag, A> = unsafe { &*(&**c as *const _) };
        r.receive()
    }
    fn stream(c: &Self::Chan) -> Self::St {
        let r: &'static GenericChannel<M, Tag, A> = unsafe { &*(&**c as *const _) };
        r.stream()
    }
    fn try_send(c: &Self::Chan, v: Tag) -> Result<(), TrySendError<Tag>> {
        c.try_send(v)
    }
    fn try_receive(c: &Self::Chan) -> Result<Tag, TryReceiveError> {
        c.try_receive()
    }
    fn close(c: &Self::Chan, _side: u8) -> CloseStatus {
        c.close()
    }
    fn cancel(f: Pin<&mut Self::SF>) -> Option<Tag> {
        unsafe { f.get_unchecked_mut().cancel() }
    }
    fn snapshot(c: &Self::Chan) -> Snapshot {
        c.verif_snapshot(&tag_of)
    }
    fn debug(c: &Self::Chan) -> String {
        c.verif_debug()
    }
    fn send_node_debug(f: &Self::SF) -> String {
        f.verif_node_debug()
    }
    fn recv_node_debug(f: &Self::RF) -> String {
        f.verif_node_debug()
    }
    fn send_node(f: &Self::SF) -> NodeSnap {
        f.verif_node(&tag_of)
    }
    fn recv_node(f: &Self::RF) -> NodeSnap {
        f.verif_node()
    }
    fn stream_node(s: &Self::St) -> Option<NodeSnap> {
        s.verif_node()
    }
}

pub type ArrL<const N: usize> = Borrowed<futures_intrusive::verif::NoopLock, ArrayBuf<Tag, [Tag; N]>>;
pub type ArrS<const N: usize> = Borrowed<parking_lot::RawMutex, ArrayBuf<Tag, [Tag; N]>>;
pub type FixS = Borrowed<parking_lot::RawMutex, FixedHeapBuf<Tag>>;

pub struct SharedF<M, A>(PhantomData<(M, A)>);
pub struct SChan<M: RawMutex + 'static, A: RingBuf<Item = Tag> + 'static> {
    tx: Vec<sh::GenericSender<M, Tag, A>>,
    rx: Vec<sh::GenericReceiver<M, Tag, A>>,
    vref: sh::VerifSharedChannel<M, Tag, A>,
}

pub trait IsGrowing {
    const GROWING: bool;
}
impl IsGrowing for GrowingHeapBuf<Tag> {
    const GROWING: bool = true;
}
impl IsGrowing for FixedHeapBuf<Tag> {
    const GROWING: bool = false;
}

impl<M: RawMutex + std::fmt::Debug + 'static, A: RingBuf<Item = Tag> + IsGrowing + std::fmt::Debug + 'static> Flavor for SharedF<M, A> {
    const SHARED: bool = true;
    const GROWING: bool = A::GROWING;
    type Chan = SChan<M, A>;
    type SF = sh::ChannelSendFuture<M, Tag>;
    type RF = sh::ChannelReceiveFuture<M, Tag>;
    type St = sh::SharedStream<M, Tag, A>;
    fn new(cap: usize) -> Self::Chan {
        let (tx, rx) = sh::generic_channel::<M, Tag, A>(cap);
        let vref = tx.verif_shared();
        { let mut txs = Vec::with_capacity(8); txs.push(tx); let mut rxs = Vec::with_capacity(8); rxs.push(rx); SChan { tx: txs, rx: rxs, vref } }
    }
    fn send(c: &Self::Chan, v: Tag) -> Self::SF {
        c.tx[0].send(v)
    }
    fn receive(c: &Self::Chan) -> Self::RF {
        c.rx[0].receive()
    }
    fn stream(c: &Self::Chan) -> Self::St {
        c.rx[0].clone().into_stream()
    }
    fn try_send(c: &Self::Chan, v: Tag) -> Result<(), TrySendError<Tag>> {
        c.tx[0].try_send(v)
    }
    fn try_receive(c: &Self::Chan) -> Result<Tag, TryReceiveError> {
        c.rx[0].try_receive()
    }
    fn close(c: &Self::Chan, side: u8) -> CloseStatus {
        if side == 0 {
            c.tx[0].close()
        } else {
            c.rx[0].close()
        }
    }
    fn cancel(f: Pin<&mut Self::SF>) -> Option<Tag> {
        unsafe { f.get_unchecked_mut().cancel() }
    }
    fn snapshot(c: &Self::Chan) -> Snapshot {
        // (the state no longer exists once every handle, future and stream is gone: closed and empty)
        c.vref.verif_snapshot(&tag_of).unwrap_or_else(|| {
            let mut sn = Snapshot::default();
            sn.scalars = vec![1, 0, 0, 0, 0];
            sn.queues = vec![vec![], vec![]];
            sn
        })
    }
    fn owners(c: &Self::Chan) -> Option<usize> {
        Some(c.vref.verif_owners())
    }
    fn debug(c: &Self::Chan) -> String {
        c.vref.verif_debug().unwrap_or_default()
    }
    fn send_node_debug(f: &Self::SF) -> String {
        f.verif_node_debug()
    }
    fn recv_node_debug(f: &Self::RF) -> String {
        f.verif_node_debug()
    }
    fn send_node(f: &Self::SF) -> NodeSnap {
        f.verif_node(&tag_of)
    }
    fn recv_node(f: &Self::RF) -> NodeSnap {
        f.verif_node()
    }
    fn stream_node(s: &Self::St) -> Option<NodeSnap> {
        s.verif_node()
    }
    fn close_stream(s: &Self::St) -> Option<CloseStatus> {
        Some(s.close())
    }
    fn senders(c: &Self::Chan) -> usize {
        c.tx.len()
    }
    fn receivers(c: &Self::Chan) -> usize {
        c.rx.len()
    }
    fn drop_sender(c: &mut Self::Chan) {
        c.tx.pop();
    }
    fn clone_sender(c: &mut Self::Chan) {
        let n = c.tx[0].clone();
        c.tx.push(n);
    }
    fn drop_receiver(c: &mut Self::Chan) {
        c.rx.pop();
    }
    fn clone_receiver(c: &mut Self::Chan) {
        let n = c.rx[0].clone();
        c.rx.push(n);
    }
}

pub type ShGrow = SharedF<harness::PLD, GrowingHeapBuf<Tag>>;
pub type ShFix = SharedF<harness::PLD, FixedHeapBuf<Tag>>;

#[derive(Clone, Copy, Debug, PartialEq)]
pub enum Op {
    CreateSend(u8),
    PollSend(u8, u8),
    PollSendDone(u8),
    CancelSend(u8),
    DropSend(u8),
    CreateRecv(u8),
    PollRecv(u8, u8),
    PollRecvDone(u8),
    DropRecv(u8),
    CreateStream,
    PollStream(u8),
    DropStream,
    TrySend,
    TryRecv,
    Close(u8),
    DropSender,
    CloneSender,
    DropReceiver,
    CloneReceiver,
}

struct SSlot<F: Flavor> {
    fut: Pinned<F::SF>,
    tag: u8,
    meta: Meta,
}
struct RSlot<F: Flavor> {
    fut: Pinned<F::RF>,
    meta: Meta,
}
struct StSlot<F: Flavor> {
    st: Pinned<F::St>,
    meta: Meta,
    /// polls after termination that returned None (bounded)
    after_end: u8,
}

#[derive(Clone, Copy, PartialEq, Debug)]
enum Origin {
    Slot(u8),
    Try,
    Gone,
}

#[derive(Clone, Debug)]
struct Flight {
    tag: u8,
    origin: Origin,
    /// the harness has observed that the value left its sender (Ok result,
    /// try_send Ok, or the send future is in state SendComplete)
    accepted: bool,
}

pub struct Sys<F: Flavor> {
    ss: Vec<Option<SSlot<F>>>,
    rs: Vec<Option<RSlot<F>>>,
    st: Option<StSlot<F>>,
    sgrave: Vec<Pinned<F::SF>>,
    rgrave: Vec<Pinned<F::RF>>,
    stgrave: Vec<Pinned<F::St>>,
    dead: Vec<(usize, usize)>,
    chan: Option<F::Chan>,
    cap: usize,
    ks: usize,
    kr: usize,
    budget: u8,
    with_stream: bool,
    max_handles: usize,
    next_tag: u8,
    closed: bool,
    close_calls: u8,
    /// values whose send took effect and that were neither received nor handed back, in send-effect order
    inflight: Vec<Flight>,
    received: Vec<u8>,
    /// accepted values that were legitimately discarded when the last receiver was dropped
    discarded: Vec<u8>,
    /// a drop of this tag has been observed and is accounted for
    explained: [bool; harness::MAX_TAGS],
    /// largest buffer length seen so far (GrowingHeapBuf may allocate only when it grows beyond it)
    max_buf_len: usize,
    symmetry: bool,
}

const GS: usize = 0;
const GR: usize = 1;
const GST: usize = 2;

impl<F: Flavor> Sys<F> {
    fn chan(&self) -> &F::Chan {
        self.chan.as_ref().unwrap()
    }

    fn live_nodes(&self) -> (Vec<LiveNode>, Vec<LiveNode>) {
        let mut r = vec![];
        let mut s = vec![];
        for (i, x) in self.rs.iter().enumerate() {
            if let Some(x) = x {
                let node = F::recv_node(x.fut.get());
                r.push(LiveNode::new(GR, i, node, &x.meta));
            }
        }
        if let Some(x) = &self.st {
            if let Some(node) = F::stream_node(x.st.get()) {
                r.push(LiveNode::new(GST, 0, node, &x.meta));
            }
        }
        for (i, x) in self.ss.iter().enumerate() {
            if let Some(x) = x {
                let node = F::send_node(x.fut.get());
                s.push(LiveNode::new(GS, i, node, &x.meta));
            }
        }
        (r, s)
    }

    /// a value came out of the channel
    fn on_recv(&mut self, who: &str, t: Tag, out: &mut StepOut) {
        let tag = t.0;
        self.explained[tag as usize] = true;
        let _ = lib(|| drop(t));
        if self.received.contains(&tag) {
            out.v("C08", "delivered-twice", format!("{} yielded value {} which was already received", who, tag));
            return;
        }
        match self.inflight.iter().position(|e| e.tag == tag) {
            None => out.v("C08", "delivered-after-handback", format!("{} yielded value {} which is not in flight (never sent, or already handed back to its sender)", who, tag)),
            Some(0) => {
                self.inflight.remove(0);
            }
            Some(p) => {
                out.v("C09", "fifo-order", format!("{} yielded value {} although value {} took effect earlier and is still in flight (in-flight order {:?})", who, tag, self.inflight[0].tag, self.inflight.iter().map(|e| e.tag).collect::<Vec<_>>()));
                self.inflight.remove(p);
            }
        }
        self.received.push(tag);
    }

    fn rmeta(&self, g: usize, i: usize) -> Option<&Meta> {
        if g == GR {
            self.rs[i].as_ref().map(|s| &s.meta)
        } else {
            self.st.as_ref().map(|s| &s.meta)
        }
    }

    fn invariants(&mut self, op: Op, buffer_before: &[u64], out: &mut StepOut) {
        // C18
        let (na, mut nf) = harness::take_alloc_counts();
        if F::owners(self.chan()) == Some(0) {
            // this step dropped the last owner of the shared state: freeing it (and its buffer)
            // is destruction, which C18 exempts
            nf = 0;
        }
        if na + nf > 0 {
            // GrowingHeapBuf: only buffer growth may allocate, i.e. a push path (a send, or a receive
            // that refills the buffer from a parked sender) that makes the buffer longer than it has
            // ever been before (VecDeque never shrinks and only reallocates when it is full)
            let len_now = F::snapshot(self.chan()).scalars[1] as usize;
            let growth_ok = F::GROWING && na > 0 && len_now > self.max_buf_len && matches!(op, Op::TrySend | Op::PollSend(..) | Op::PollRecv(..) | Op::TryRecv | Op::PollStream(..));
            if !growth_ok {
                out.p("C18", "alloc-in-call", format!("{} allocations / {} frees inside library calls of step {:?}", na, nf, op));
            }
        }
        let snap = F::snapshot(self.chan());
        self.max_buf_len = self.max_buf_len.max(snap.scalars[1] as usize);
        let (rlive, slive) = self.live_nodes();
        structcheck::check_errors(&snap.errors, out);
        structcheck::check_queue("receive_waiters", &snap.queues[0], &rlive, &self.dead, out);
        structcheck::check_queue("send_waiters", &snap.queues[1], &slive, &self.dead, out);
        structcheck::check_membership(&[&snap.queues[0]], &rlive, out);
        structcheck::check_membership(&[&snap.queues[1]], &slive, out);

        // C17
        for (i, s) in self.ss.iter().enumerate() {
            if let Some(s) = s {
                if s.fut.get().is_terminated() != s.meta.done {
                    out.p("C17", "is-terminated", format!("send slot {}: is_terminated()={} but completed/cancelled={}", i, s.fut.get().is_terminated(), s.meta.done));
                }
            }
        }
        for (i, s) in self.rs.iter().enumerate() {
            if let Some(s) = s {
                if s.fut.get().is_terminated() != s.meta.done {
                    out.p("C17", "is-terminated", format!("receive slot {}: is_terminated()={} but completed={}", i, s.fut.get().is_terminated(), s.meta.done));
                }
            }
        }
        if let Some(s) = &self.st {
            if s.st.get().is_terminated() != s.meta.done {
                out.p("C17", "stream-is-terminated", format!("stream: is_terminated()={} but returned None={}", s.st.get().is_terminated(), s.meta.done));
            }
        }

        // learn which parked values have been accepted (ground truth: the send future says SendComplete)
        for e in self.inflight.iter_mut() {
            if let Origin::Slot(i) = e.origin {
                if let Some(s) = &self.ss[i as usize] {
                    if s.tag == e.tag && F::send_node(s.fut.get()).tag == 2 {
                        e.accepted = true;
                    }
                }
            }
        }

        // C11: last receiver dropped => buffered values are discarded immediately
        if matches!(op, Op::DropReceiver | Op::DropStream) && F::SHARED && F::receivers(self.chan()) + self.st.is_some() as usize == 0 {
            for &t in buffer_before {
                let t = t as u8;
                if drops(t) != 1 {
                    out.v("C11", "last-receiver-keeps-values", format!("the last receiver was dropped but buffered value {} was not discarded in that step (drop count {})", t, drops(t)));
                }
                self.explained[t as usize] = true;
                self.inflight.retain(|e| e.tag != t);
                self.discarded.push(t);
            }
            if !snap.buffer.is_empty() {
                out.v("C11", "last-receiver-keeps-values", format!("the last receiver was dropped but the buffer still holds {:?}", snap.buffer));
            }
        }

        // C08: drop accounting
        for t in 0..self.next_tag {
            let d = drops(t);
            if d > 1 {
                out.v("C08", "dropped-twice", format!("value {} was dropped {} times", t, d));
            } else if d == 1 && !self.explained[t as usize] {
                out.v("C08", "silently-discarded", format!("value {} was dropped inside the channel during {:?} although it was neither received nor handed back", t, op));
                if matches!(op, Op::Close(_)) {
                    // "after [close] ... receivers still get all values accepted before the close"
                    out.v("C11", "close-discarded-value", format!("{:?} dropped value {}, which had been accepted before the close and not been received", op, t));
                }
                self.explained[t as usize] = true;
                self.inflight.retain(|e| e.tag != t);
            }
        }

        // C09: capacity
        let acc = self.inflight.iter().filter(|e| e.accepted).count();
        if acc > self.cap {
            out.v("C09", "capacity", format!("{} values are accepted but not yet received, capacity is {} ({:?})", acc, self.cap, self.inflight));
        }
        if snap.scalars[1] as usize > self.cap {
            out.v("C09", "capacity", format!("buffer holds {} values, capacity is {}", snap.scalars[1], self.cap));
        }

        // C17: "streams yield exactly the values successive receives would". While a stream is the
        // only receiving object that is alive and unfinished, an accepted value that has been
        // neither received, handed back nor dropped can only be in the buffer or in the node of its
        // parked sender; if it is in neither, the stream has fetched it ahead of the poll that will
        // yield it, and a receive issued now through a handle gets a later value instead. (With a
        // pending receive future around, an implementation that hands values over at notification
        // time could legitimately keep one there: not flagged.)
        let other_receivers = (0..self.kr).any(|j| matches!(&self.rs[j], Some(r) if r.meta.pending()));
        if self.st.is_some() && !other_receivers && !out.corrupt {
            for e in self.inflight.iter().filter(|e| e.accepted) {
                let t = e.tag as u64;
                let inside = snap.buffer.iter().any(|&b| b == t) || snap.queues[1].iter().any(|q| q.extra == t);
                if !inside {
                    out.p("C17", "stream-took-ahead", format!("value {} has left the channel (buffer {:?}) although no receive / poll_next has yielded it and the stream is the only unfinished receiver: the stream does not yield exactly what successive receives would", e.tag, snap.buffer));
                }
            }
        }

        // C11: closed-ness ground truth
        let impl_closed = snap.scalars[0] != 0;
        if impl_closed != self.closed {
            out.v("C11", "closedness", format!("channel is {} but explicit close and handle counts (senders={}, receivers={}) say it must be {}", if impl_closed { "closed" } else { "open" }, F::senders(self.chan()), F::receivers(self.chan()) + self.st.is_some() as usize, if self.closed { "closed" } else { "open" }));
        }

        // C10 / C11: wake-ups
        let mut rp: Vec<(usize, usize)> = (0..self.kr).filter(|&j| matches!(&self.rs[j], Some(s) if s.meta.pending())).map(|j| (GR, j)).collect();
        if matches!(&self.st, Some(s) if s.meta.pending()) {
            rp.push((GST, 0));
        }
        let sp: Vec<usize> = (0..self.ks).filter(|&j| matches!(&self.ss[j], Some(s) if s.meta.pending())).collect();
        if self.closed {
            for &(g, j) in &rp {
                if !fresh(g, j, self.rmeta(g, j).unwrap()) {
                    // stated by C11 ("after [close] ... every pending future has been woken") and by
                    // C10 ("every pending future after close() has likewise been woken")
                    for p in ["C11", "C10"] {
                        out.p(p, "pending-not-woken", format!("the channel is closed but the pending receiver (group {}, slot {}) has not been woken through the waker of its latest poll", g, j));
                    }
                }
            }
            for &j in &sp {
                if !fresh(GS, j, &self.ss[j].as_ref().unwrap().meta) {
                    for p in ["C11", "C10"] {
                        out.p(p, "pending-not-woken", format!("the channel is closed but the pending sender of slot {} has not been woken through the waker of its latest poll", j));
                    }
                }
            }
        } else {
            if !self.inflight.is_empty() && !rp.is_empty() && !rp.iter().any(|&(g, j)| fresh(g, j, self.rmeta(g, j).unwrap())) {
                out.p("C10", "receiver-lost-wakeup", format!("values {:?} are available, receivers {:?} are pending, none of them has been woken through the waker of its latest poll", self.inflight.iter().map(|e| e.tag).collect::<Vec<_>>(), rp));
            }
            for &j in &sp {
                let s = self.ss[j].as_ref().unwrap();
                let accepted = self.received.contains(&s.tag) || self.discarded.contains(&s.tag) || F::send_node(s.fut.get()).tag == 2;
                if accepted && !fresh(GS, j, &s.meta) {
                    out.p("C10", "sender-lost-wakeup", format!("the value of the pending sender of slot {} has been accepted but the sender has not been woken through the waker of its latest poll", j));
                }
            }
        }
    }
}

impl<F: Flavor> System for Sys<F> {
    type Op = Op;

    fn new(cfg: &Cfg) -> Self {
        let cap = cfg.get("cap") as usize;
        let ks = cfg.get("ks") as usize;
        let kr = cfg.get("kr") as usize;
        Sys {
            ss: (0..ks).map(|_| None).collect(),
            rs: (0..kr).map(|_| None).collect(),
            st: None,
            sgrave: vec![],
            rgrave: vec![],
            stgrave: vec![],
            dead: vec![],
            chan: Some(F::new(cap)),
            cap,
            ks,
            kr,
            budget: cfg.get("values") as u8,
            with_stream: cfg.flag("stream"),
            max_handles: cfg.get_or("handles", 2) as usize,
            next_tag: 0,
            closed: false,
            close_calls: 0,
            inflight: vec![],
            received: vec![],
            discarded: vec![],
            explained: [false; harness::MAX_TAGS],
            max_buf_len: 0,
            symmetry: cfg.get_or("symmetry", 1) != 0,
        }
    }

    fn enabled(&self) -> Vec<Op> {
        let mut v = vec![];
        let budget = self.next_tag < self.budget;
        let has_tx = F::senders(self.chan()) > 0;
        let has_rx = F::receivers(self.chan()) > 0;
        let mut created = false;
        for i in 0..self.ks {
            match &self.ss[i] {
                None => {
                    if budget && has_tx && !(self.symmetry && created) {
                        v.push(Op::CreateSend(i as u8));
                        created = true;
                    }
                }
                Some(s) => {
                    if !s.meta.done {
                        v.push(Op::PollSend(i as u8, 0));
                        v.push(Op::PollSend(i as u8, 1));
                        v.push(Op::CancelSend(i as u8));
                    } else if !s.meta.repolled {
                        v.push(Op::PollSendDone(i as u8));
                    }
                    v.push(Op::DropSend(i as u8));
                }
            }
        }
        created = false;
        for i in 0..self.kr {
            match &self.rs[i] {
                None => {
                    if has_rx && !(self.symmetry && created) {
                        v.push(Op::CreateRecv(i as u8));
                        created = true;
                    }
                }
                Some(s) => {
                    if !s.meta.done {
                        v.push(Op::PollRecv(i as u8, 0));
                        v.push(Op::PollRecv(i as u8, 1));
                    } else if !s.meta.repolled {
                        v.push(Op::PollRecvDone(i as u8));
                    }
                    v.push(Op::DropRecv(i as u8));
                }
            }
        }
        if self.with_stream {
            match &self.st {
                None => {
                    if has_rx {
                        v.push(Op::CreateStream)
                    }
                }
                Some(s) => {
                    if !s.meta.done || s.after_end < 1 {
                        v.push(Op::PollStream(0));
                        v.push(Op::PollStream(1));
                    }
                    v.push(Op::DropStream);
                }
            }
        }
        if budget && has_tx && self.cap > 0 {
            v.push(Op::TrySend);
        }
        if has_rx {
            v.push(Op::TryRecv);
        }
        if self.close_calls < 2 {
            if has_tx {
                v.push(Op::Close(0));
            }
            if F::SHARED && has_rx {
                v.push(Op::Close(1));
            }
            if F::SHARED && self.st.is_some() {
                v.push(Op::Close(2));
            }
        }
        if F::SHARED {
            let (s, r) = (F::senders(self.chan()), F::receivers(self.chan()));
            if s > 0 {
                v.push(Op::DropSender);
                if s < self.max_handles {
                    v.push(Op::CloneSender);
                }
            }
            if r > 0 {
                v.push(Op::DropReceiver);
                if r < self.max_handles {
                    v.push(Op::CloneReceiver);
                }
            }
        }
        v
    }

    fn apply(&mut self, op: Op, out: &mut StepOut) {
        let wakes_before = harness::all_wakes();
        let buffer_before: Vec<u64> = F::snapshot(self.chan()).buffer;
        match op {
            Op::CreateSend(i) => {
                let i = i as usize;
                let tag = self.next_tag;
                self.next_tag += 1;
                match lib(|| F::send(self.chan(), Tag(tag))) {
                    Ok(f) => {
                        let mut meta = Meta::default();
                        meta.seen = sample_seen(GS, i);
                        self.ss[i] = Some(SSlot { fut: Pinned::new(f), tag, meta });
                    }
                    Err(p) => out.v("C01", "panic", format!("send() panicked: {}", p)),
                }
            }
            Op::PollSend(i, w) => {
                let i = i as usize;
                let seen = sample_seen(GS, i);
                let waker = harness::waker(wid(GS, i, w));
                let s = self.ss[i].as_mut().unwrap();
                let first = !s.meta.polled;
                let tag = s.tag;
                let r = lib(|| s.fut.pin().poll(&mut Context::from_waker(&waker)));
                s.meta.polled = true;
                s.meta.last = w;
                s.meta.seen = seen;
                match r {
                    Err(p) => {
                        out.v("C01", "panic", format!("poll of send slot {} panicked: {}", i, p));
                        out.corrupt = true;
                        s.meta.done = true;
                    }
                    Ok(Poll::Pending) => {
                        out.o("Pending");
                        if first {
                            if self.closed {
                                out.v("C11", "send-pending-on-closed-channel", format!("send({}) returned Pending on a closed channel", tag));
                            }
                            self.inflight.push(Flight { tag, origin: Origin::Slot(i as u8), accepted: false });
                        }
                    }
                    Ok(Poll::Ready(Ok(()))) => {
                        out.o("Ok");
                        s.meta.done = true;
                        if first {
                            if self.closed {
                                out.v("C11", "send-accepted-when-closed", format!("send({}) succeeded although the channel is closed", tag));
                            }
                            self.inflight.push(Flight { tag, origin: Origin::Slot(i as u8), accepted: true });
                        } else if let Some(e) = self.inflight.iter_mut().find(|e| e.tag == tag) {
                            e.accepted = true;
                        } else if !self.received.contains(&tag) && !self.discarded.contains(&tag) {
                            out.v("C08", "ok-but-value-gone", format!("send({}) completed with Ok although its value is neither in flight nor received", tag));
                        }
                        if self.cap == 0 && !self.received.contains(&tag) && !self.discarded.contains(&tag) {
                            out.v("C09", "rendezvous", format!("unbuffered channel: send({}) completed before a receiver took the value", tag));
                        }
                    }
                    Ok(Poll::Ready(Err(e))) => {
                        out.o("Err");
                        s.meta.done = true;
                        let v = e.0;
                        if v.0 != tag {
                            out.v("C11", "foreign-value-returned", format!("send({}) failed and handed back value {}", tag, v.0));
                        }
                        self.explained[v.0 as usize] = true;
                        let vt = v.0;
                        let _ = lib(|| drop(v));
                        if !self.closed {
                            out.v("C11", "send-error-on-open-channel", format!("send({}) failed although the channel is open", tag));
                        }
                        if self.received.contains(&vt) {
                            out.v("C08", "handed-back-and-delivered", format!("value {} was handed back to its sender although it was also received", vt));
                        }
                        self.inflight.retain(|e| e.tag != vt);
                    }
                }
            }
            Op::PollSendDone(i) => {
                let i = i as usize;
                let waker = harness::waker(wid(GS, i, 0));
                let s = self.ss[i].as_mut().unwrap();
                let r = lib(|| s.fut.pin().poll(&mut Context::from_waker(&waker)).map(|r| r.map_err(|e| e.0 .0)));
                s.meta.repolled = true;
                match r {
                    Err(_) => out.o("panicked"),
                    Ok(p) => out.v("C17", "poll-after-completion", format!("polling the completed/cancelled send future of slot {} returned {:?} instead of panicking", i, p)),
                }
            }
            Op::CancelSend(i) => {
                let i = i as usize;
                let s = self.ss[i].as_mut().unwrap();
                let tag = s.tag;
                let r = lib(|| F::cancel(s.fut.pin()));
                s.meta.done = true;
                match r {
                    Err(p) => {
                        out.v("C01", "panic", format!("cancel() of send slot {} panicked: {}", i, p));
                        out.corrupt = true;
                    }
                    Ok(Some(v)) => {
                        out.o("Some");
                        if v.0 != tag {
                            out.v("C08", "cancel-foreign-value", format!("cancel() of send({}) returned value {}", tag, v.0));
                        }
                        if self.received.contains(&v.0) {
                            out.v("C08", "handed-back-and-delivered", format!("cancel() returned value {} which was also received", v.0));
                        }
                        if self.inflight.iter().any(|e| e.tag == v.0 && e.accepted) {
                            out.v("C08", "handed-back-and-accepted", format!("cancel() returned value {} although the channel had accepted it", v.0));
                        }
                        self.explained[v.0 as usize] = true;
                        let vt = v.0;
                        let _ = lib(|| drop(v));
                        self.inflight.retain(|e| e.tag != vt);
                    }
                    Ok(None) => {
                        out.o("None");
                        // ground truth through the hook: None means "the value has left the future"
                        let still_inside = F::send_node(self.ss[i].as_ref().unwrap().fut.get()).extra != NO_VALUE;
                        if still_inside {
                            out.v("C08", "cancel-kept-value", format!("cancel() of send({}) returned None although the value is still stored inside the send future (it will be dropped with the future instead of being handed back)", tag));
                            self.inflight.retain(|e| e.tag != tag);
                        } else if let Some(e) = self.inflight.iter_mut().find(|e| e.tag == tag) {
                            e.accepted = true;
                            e.origin = Origin::Gone;
                        } else if !self.received.contains(&tag) && !self.discarded.contains(&tag) {
                            out.v("C08", "cancel-lost-value", format!("cancel() of send({}) returned None but the value is neither in flight nor received", tag));
                        }
                    }
                }
            }
            Op::DropSend(i) => {
                let mut s = self.ss[i as usize].take().unwrap();
                let tag = s.tag;
                let before = drops(tag);
                let range = s.fut.range();
                if let Err(p) = lib(|| s.fut.kill()) {
                    out.v("C01", "panic", format!("dropping the send future of slot {} panicked: {}", i, p));
                    out.corrupt = true;
                }
                s.fut.release_memory_if_requested();
                self.dead.push(range);
                self.sgrave.push(s.fut);
                if drops(tag) > before {
                    // the value was still inside the future
                    if self.received.contains(&tag) {
                        out.v("C08", "dropped-and-delivered", format!("value {} was received and also dropped together with its send future", tag));
                    }
                    if self.inflight.iter().any(|e| e.tag == tag && e.accepted) {
                        out.v("C08", "dropped-and-accepted", format!("value {} was dropped with its send future although the channel had accepted it", tag));
                    }
                    self.explained[tag as usize] = true;
                    self.inflight.retain(|e| e.tag != tag);
                } else if let Some(e) = self.inflight.iter_mut().find(|e| e.tag == tag) {
                    e.origin = Origin::Gone;
                    e.accepted = true;
                }
            }
            Op::CreateRecv(i) => {
                let i = i as usize;
                match lib(|| F::receive(self.chan())) {
                    Ok(f) => {
                        let mut meta = Meta::default();
                        meta.seen = sample_seen(GR, i);
                        self.rs[i] = Some(RSlot { fut: Pinned::new(f), meta });
                    }
                    Err(p) => out.v("C01", "panic", format!("receive() panicked: {}", p)),
                }
            }
            Op::PollRecv(i, w) => {
                let i = i as usize;
                let seen = sample_seen(GR, i);
                let waker = harness::waker(wid(GR, i, w));
                let s = self.rs[i].as_mut().unwrap();
                let r = lib(|| s.fut.pin().poll(&mut Context::from_waker(&waker)));
                s.meta.polled = true;
                s.meta.last = w;
                s.meta.seen = seen;
                match r {
                    Err(p) => {
                        out.v("C01", "panic", format!("poll of receive slot {} panicked: {}", i, p));
                        out.corrupt = true;
                        s.meta.done = true;
                    }
                    Ok(Poll::Pending) => {
                        out.o("Pending");
                        if self.closed {
                            out.v("C11", "receive-pending-on-closed-channel", format!("receive of slot {} returned Pending on a closed channel", i));
                        }
                    }
                    Ok(Poll::Ready(Some(t))) => {
                        out.o(&format!("Some({})", t.0));
                        s.meta.done = true;
                        self.on_recv(&format!("receive of slot {}", i), t, out);
                    }
                    Ok(Poll::Ready(None)) => {
                        out.o("None");
                        s.meta.done = true;
                        if !self.closed {
                            out.v("C11", "none-on-open-channel", format!("receive of slot {} yielded None although the channel is open", i));
                        } else if self.inflight.iter().any(|e| e.accepted) {
                            out.v("C11", "none-before-drained", format!("receive of slot {} yielded None although accepted values {:?} have not been received", i, self.inflight));
                        }
                    }
                }
            }
            Op::PollRecvDone(i) => {
                let i = i as usize;
                let waker = harness::waker(wid(GR, i, 0));
                let s = self.rs[i].as_mut().unwrap();
                let r = lib(|| s.fut.pin().poll(&mut Context::from_waker(&waker)).map(|v| v.map(|t| t.0)));
                s.meta.repolled = true;
                match r {
                    Err(_) => out.o("panicked"),
                    Ok(p) => out.v("C17", "poll-after-completion", format!("polling the completed receive future of slot {} returned {:?} instead of panicking", i, p)),
                }
            }
            Op::DropRecv(i) => {
                let mut s = self.rs[i as usize].take().unwrap();
                let range = s.fut.range();
                if let Err(p) = lib(|| s.fut.kill()) {
                    out.v("C01", "panic", format!("dropping the receive future of slot {} panicked: {}", i, p));
                    out.corrupt = true;
                }
                s.fut.release_memory_if_requested();
                self.dead.push(range);
                self.rgrave.push(s.fut);
            }
            Op::CreateStream => match lib(|| F::stream(self.chan())) {
                Ok(st) => {
                    let mut meta = Meta::default();
                    meta.seen = sample_seen(GST, 0);
                    self.st = Some(StSlot { st: Pinned::new(st), meta, after_end: 0 });
                }
                Err(p) => out.v("C01", "panic", format!("stream() panicked: {}", p)),
            },
            Op::PollStream(w) => {
                let seen = sample_seen(GST, 0);
                let waker = harness::waker(wid(GST, 0, w));
                let s = self.st.as_mut().unwrap();
                let was_done = s.meta.done;
                let r = lib(|| s.st.pin().poll_next(&mut Context::from_waker(&waker)));
                s.meta.last = w;
                s.meta.seen = seen;
                match r {
                    Err(p) => {
                        out.v("C01", "panic", format!("poll_next of the stream panicked: {}", p));
                        out.corrupt = true;
                        s.meta.done = true;
                    }
                    Ok(Poll::Pending) => {
                        out.o("Pending");
                        s.meta.polled = true;
                        if was_done {
                            out.v("C17", "stream-after-end", "poll_next returned Pending after the stream had ended".to_string());
                        } else if self.closed {
                            out.v("C11", "receive-pending-on-closed-channel", "poll_next returned Pending on a closed channel".to_string());
                        }
                    }
                    Ok(Poll::Ready(Some(t))) => {
                        out.o(&format!("Some({})", t.0));
                        // the stream continues: not pending, not done
                        s.meta.polled = false;
                        if was_done {
                            out.v("C17", "stream-after-end", format!("poll_next yielded value {} after the stream had ended", t.0));
                        }
                        self.on_recv("the stream", t, out);
                    }
                    Ok(Poll::Ready(None)) => {
                        out.o("None");
                        s.meta.polled = true;
                        s.meta.done = true;
                        if was_done {
                            s.after_end += 1;
                        } else if !self.closed {
                            out.v("C17", "stream-ended-on-open-channel", "poll_next yielded None although the channel is open".to_string());
                        } else if self.inflight.iter().any(|e| e.accepted) {
                            out.v("C17", "stream-ended-before-drained", format!("poll_next yielded None although accepted values {:?} have not been received", self.inflight));
                        }
                    }
                }
            }
            Op::DropStream => {
                let mut s = self.st.take().unwrap();
                let range = s.st.range();
                if let Err(p) = lib(|| s.st.kill()) {
                    out.v("C01", "panic", format!("dropping the stream panicked: {}", p));
                    out.corrupt = true;
                }
                s.st.release_memory_if_requested();
                self.dead.push(range);
                self.stgrave.push(s.st);
                if F::SHARED && F::receivers(self.chan()) == 0 {
                    self.closed = true;
                }
            }
            Op::TrySend => {
                let tag = self.next_tag;
                self.next_tag += 1;
                match lib(|| F::try_send(self.chan(), Tag(tag))) {
                    Err(p) => out.v("C01", "panic", format!("try_send() panicked: {}", p)),
                    Ok(Ok(())) => {
                        out.o("Ok");
                        if self.closed {
                            out.v("C11", "send-accepted-when-closed", format!("try_send({}) succeeded although the channel is closed", tag));
                        }
                        self.inflight.push(Flight { tag, origin: Origin::Try, accepted: true });
                    }
                    Ok(Err(e)) => {
                        let (v, full) = match e {
                            TrySendError::Full(v) => (v, true),
                            TrySendError::Closed(v) => (v, false),
                        };
                        out.o(if full { "Full" } else { "Closed" });
                        if v.0 != tag {
                            out.v("C11", "foreign-value-returned", format!("try_send({}) failed and handed back value {}", tag, v.0));
                        }
                        if !full && !self.closed {
                            out.v("C11", "closed-on-open-channel", format!("try_send({}) reported Closed on an open channel", tag));
                        }
                        self.explained[v.0 as usize] = true;
                        let _ = lib(|| drop(v));
                    }
                }
            }
            Op::TryRecv => match lib(|| F::try_receive(self.chan())) {
                Err(p) => out.v("C01", "panic", format!("try_receive() panicked: {}", p)),
                Ok(Ok(t)) => {
                    out.o(&format!("Ok({})", t.0));
                    self.on_recv("try_receive", t, out);
                }
                Ok(Err(TryReceiveError::Empty)) => {
                    out.o("Empty");
                    if self.closed {
                        out.v("C11", "empty-on-closed-channel", "try_receive reported Empty on a closed channel".to_string());
                    }
                }
                Ok(Err(TryReceiveError::Closed)) => {
                    out.o("Closed");
                    if !self.closed {
                        out.v("C11", "closed-on-open-channel", "try_receive reported Closed on an open channel".to_string());
                    }
                    if self.inflight.iter().any(|e| e.accepted) {
                        out.v("C11", "none-before-drained", format!("try_receive reported Closed although accepted values {:?} have not been received", self.inflight));
                    }
                }
            },
            Op::Close(side) => {
                self.close_calls += 1;
                let r = if side == 2 {
                    let st = self.st.as_ref().expect("stream");
                    lib(|| F::close_stream(st.st.get()).expect("flavour has no stream close"))
                } else {
                    lib(|| F::close(self.chan(), side))
                };
                match r {
                    Err(p) => out.v("C01", "panic", format!("close() panicked: {}", p)),
                    Ok(st) => {
                        out.o(&format!("{:?}", st));
                        let expect = if self.closed { CloseStatus::AlreadyClosed } else { CloseStatus::NewlyClosed };
                        if st != expect {
                            out.v("C11", "close-status", format!("close() returned {:?}, expected {:?}", st, expect));
                        }
                        self.closed = true;
                    }
                }
            }
            Op::DropSender => {
                let c = self.chan.as_mut().unwrap();
                if let Err(p) = lib(|| F::drop_sender(c)) {
                    out.v("C01", "panic", format!("dropping a sender panicked: {}", p));
                }
                if F::senders(self.chan()) == 0 {
                    self.closed = true;
                }
            }
            Op::CloneSender => {
                let c = self.chan.as_mut().unwrap();
                if let Err(p) = lib(|| F::clone_sender(c)) {
                    out.v("C01", "panic", format!("cloning a sender panicked: {}", p));
                }
            }
            Op::DropReceiver => {
                let c = self.chan.as_mut().unwrap();
                if let Err(p) = lib(|| F::drop_receiver(c)) {
                    out.v("C01", "panic", format!("dropping a receiver panicked: {}", p));
                }
                if F::receivers(self.chan()) + self.st.is_some() as usize == 0 {
                    self.closed = true;
                }
            }
            Op::CloneReceiver => {
                let c = self.chan.as_mut().unwrap();
                if let Err(p) = lib(|| F::clone_receiver(c)) {
                    out.v("C01", "panic", format!("cloning a receiver panicked: {}", p));
                }
            }
        }
        let wakes_after = harness::all_wakes();
        let woken: Vec<usize> = (0..harness::MAX_WAKERS).filter(|&w| wakes_after[w] > wakes_before[w]).collect();
        if !woken.is_empty() {
            out.o(&format!("woke{:?}", woken));
        }
        self.invariants(op, &buffer_before, out);
    }

    fn fingerprint(&self) -> Vec<u8> {
        let snap = F::snapshot(self.chan());
        let mut v = vec![if F::GROWING { self.max_buf_len as u8 } else { 0 }, snap.scalars[0] as u8, snap.scalars[1] as u8, self.closed as u8, self.close_calls, self.next_tag, F::senders(self.chan()) as u8, F::receivers(self.chan()) as u8];
        let pos = |tag: u64| -> u8 {
            if tag == NO_VALUE {
                return 254;
            }
            self.inflight.iter().position(|e| e.tag as u64 == tag).map_or(if self.received.contains(&(tag as u8)) { 100 } else if self.discarded.contains(&(tag as u8)) { 102 } else { 101 }, |p| p as u8)
        };
        for &t in &snap.buffer {
            v.push(pos(t));
        }
        v.push(250);
        for e in &self.inflight {
            v.push(match e.origin {
                Origin::Slot(_) => 1,
                Origin::Try => 8,
                Origin::Gone => 9,
            });
            v.push(e.accepted as u8);
        }
        v.push(251);
        let mut recs: Vec<Vec<u8>> = vec![];
        for i in 0..self.ks {
            match &self.ss[i] {
                None => recs.push(vec![255]),
                Some(s) => {
                    let mut r = vec![s.meta.polled as u8, s.meta.done as u8, s.meta.repolled as u8, pos(s.tag as u64)];
                    if s.meta.pending() {
                        r.push(s.meta.last);
                        r.push(fresh(GS, i, &s.meta) as u8);
                        r.push(stale_wake(GS, i, &s.meta) as u8);
                    } else {
                        r.extend([9, 9, 9]);
                    }
                    let n = F::send_node(s.fut.get());
                    r.push(n.tag);
                    r.push((n.extra != NO_VALUE) as u8);
                    r.push(structcheck::waker_code(n.waker, GS, i));
                    r.push(snap.queues[1].iter().position(|q| q.addr == n.addr).map_or(200, |p| p as u8));
                    r.push(s.fut.get().is_terminated() as u8);
                    r.extend(harness::norm(&F::send_node_debug(s.fut.get())));
                    recs.push(r);
                }
            }
        }
        if self.symmetry {
            recs.sort();
        }
        for r in recs {
            v.extend(r);
            v.push(253);
        }
        v.push(252);
        let mut recs: Vec<Vec<u8>> = vec![];
        for i in 0..self.kr {
            match &self.rs[i] {
                None => recs.push(vec![255]),
                Some(s) => {
                    let mut r = vec![s.meta.polled as u8, s.meta.done as u8, s.meta.repolled as u8];
                    if s.meta.pending() {
                        r.push(s.meta.last);
                        r.push(fresh(GR, i, &s.meta) as u8);
                        r.push(stale_wake(GR, i, &s.meta) as u8);
                    } else {
                        r.extend([9, 9, 9]);
                    }
                    let n = F::recv_node(s.fut.get());
                    r.push(n.tag);
                    r.push(structcheck::waker_code(n.waker, GR, i));
                    r.push(snap.queues[0].iter().position(|q| q.addr == n.addr).map_or(200, |p| p as u8));
                    r.push(s.fut.get().is_terminated() as u8);
                    r.extend(harness::norm(&F::recv_node_debug(s.fut.get())));
                    recs.push(r);
                }
            }
        }
        if self.symmetry {
            recs.sort();
        }
        for r in recs {
            v.extend(r);
            v.push(253);
        }
        v.push(249);
        match &self.st {
            None => v.push(255),
            Some(s) => {
                v.extend([s.meta.polled as u8, s.meta.done as u8, s.after_end, s.st.get().is_terminated() as u8]);
                if s.meta.pending() {
                    v.extend([s.meta.last, fresh(GST, 0, &s.meta) as u8, stale_wake(GST, 0, &s.meta) as u8]);
                }
                match F::stream_node(s.st.get()) {
                    None => v.push(254),
                    Some(n) => {
                        v.push(n.tag);
                        v.push(structcheck::waker_code(n.waker, GST, 0));
                        v.push(snap.queues[0].iter().position(|q| q.addr == n.addr).map_or(200, |p| p as u8));
                    }
                }
            }
        }
        v.extend(harness::norm(&F::debug(self.chan())));
        v
    }

    /// end-of-history checks: (1) drain closure for C10 - while something is
    /// woken it polls again; afterwards no receiver may be pending while a
    /// value is available and no sender may be pending although its value was
    /// accepted; (2) teardown for C08 - every value is dropped exactly once.
    fn finish(mut self, out: &mut StepOut) {
        let mut rounds = 0;
        loop {
            rounds += 1;
            let mut todo: Vec<Op> = vec![];
            for j in 0..self.kr {
                if let Some(s) = &self.rs[j] {
                    if fresh(GR, j, &s.meta) {
                        todo.push(Op::PollRecv(j as u8, s.meta.last));
                    }
                }
            }
            if let Some(s) = &self.st {
                if fresh(GST, 0, &s.meta) {
                    todo.push(Op::PollStream(s.meta.last));
                }
            }
            for j in 0..self.ks {
                if let Some(s) = &self.ss[j] {
                    if fresh(GS, j, &s.meta) {
                        todo.push(Op::PollSend(j as u8, s.meta.last));
                    }
                }
            }
            if todo.is_empty() || rounds > 64 {
                break;
            }
            for op in todo {
                let still = match op {
                    Op::PollRecv(j, _) => matches!(&self.rs[j as usize], Some(s) if s.meta.pending()),
                    Op::PollStream(_) => matches!(&self.st, Some(s) if s.meta.pending()),
                    Op::PollSend(j, _) => matches!(&self.ss[j as usize], Some(s) if s.meta.pending()),
                    _ => false,
                };
                if !still {
                    continue;
                }
                let mut o = StepOut::default();
                self.apply(op, &mut o);
                for v in o.viol {
                    if v.prop == "C10" || v.prop == "C08" || v.prop == "C09" {
                        out.viol.push(Violation_prefix(v));
                    }
                }
            }
        }
        // after the closure nobody holds a wake-up; the per-state invariants of
        // C10 were evaluated by apply() on every step of the closure.
        // teardown: drop futures, stream, handles, channel
        let tags = self.next_tag;
        for i in 0..self.ks {
            if let Some(mut s) = self.ss[i].take() {
                let _ = lib(|| s.fut.kill());
            }
        }
        for i in 0..self.kr {
            if let Some(mut s) = self.rs[i].take() {
                let _ = lib(|| s.fut.kill());
            }
        }
        if let Some(mut s) = self.st.take() {
            let _ = lib(|| s.st.kill());
        }
        let c = self.chan.take();
        let _ = lib(|| drop(c));
        for t in 0..tags {
            let d = drops(t);
            if d != 1 {
                out.v("C08", "teardown-drop-count", format!("after all futures, handles and the channel were dropped, value {} has been dropped {} times (expected exactly once)", t, d));
            }
        }
        let _ = harness::take_alloc_counts();
    }
}

#[allow(non_snake_case)]
fn Violation_prefix(v: crate::core::Violation) -> crate::core::Violation {
    crate::core::Violation { prop: v.prop, clause: v.clause, msg: format!("[during drain closure] {}", v.msg), pure: v.pure }
}
