//! E-SEQ system: oneshot and oneshot-broadcast channels (borrowed local /
//! borrowed parking_lot / shared handles).
//! Monitors: C01, C11 (close semantics, handle lifecycle), C12, C17, C18.

use crate::core::{Cfg, StepOut, System};
use crate::harness::{self, ctag_of, fresh, lib, sample_seen, stale_wake, tag_of, wid, CTag, Meta, Pinned, Tag};
use crate::structcheck::{self, LiveNode};
use futures_core::future::FusedFuture;
use futures_intrusive::channel::shared as sh;
use futures_intrusive::channel::{ChannelReceiveFuture, CloseStatus, GenericOneshotBroadcastChannel, GenericOneshotChannel};
use futures_intrusive::verif::{NodeSnap, Snapshot, NO_VALUE};
use lock_api::RawMutex;
use std::future::Future;
use std::marker::PhantomData;
use std::task::{Context, Poll};

/// what is left of a shared channel once every handle and future is gone: closed, no value, no waiters
fn dead_snapshot() -> Snapshot {
    let mut sn = Snapshot::default();
    sn.scalars = vec![1, NO_VALUE, 0];
    sn.queues = vec![vec![]];
    sn
}

pub trait Flavor: 'static {
    const BROADCAST: bool;
    const SHARED: bool;
    type V: 'static;
    type Chan;
    type Fut: Future<Output = Option<Self::V>> + FusedFuture;
    fn new() -> Self::Chan;
    fn mk(tag: u8) -> Self::V;
    fn tag(v: &Self::V) -> u8;
    /// None = no live sender handle
    fn send(c: &Self::Chan, v: Self::V) -> Option<Result<(), Self::V>>;
    fn close(c: &Self::Chan) -> CloseStatus;
    fn receive(c: &Self::Chan) -> Self::Fut;
    fn snapshot(c: &Self::Chan) -> Snapshot;
    fn node(f: &Self::Fut) -> NodeSnap;
    fn debug(c: &Self::Chan) -> String;
    fn node_debug(f: &Self::Fut) -> String;
    /// shared flavours: number of owners (handles, futures) of the shared state
    fn owners(_c: &Self::Chan) -> Option<usize> {
        None
    }
    fn senders(_c: &Self::Chan) -> usize {
        1
    }
    fn receivers(_c: &Self::Chan) -> usize {
        1
    }
    fn drop_sender(_c: &mut Self::Chan) {}
    fn drop_receiver(_c: &mut Self::Chan) {}
    fn clone_receiver(_c: &mut Self::Chan) {}
}

pub struct BOne<M>(PhantomData<M>);
pub struct BBc<M>(PhantomData<M>);
pub struct SOne<M>(PhantomData<M>);
pub struct SBc<M>(PhantomData<M>);

impl<M: RawMutex + 'static> Flavor for BOne<M> {
    const BROADCAST: bool = false;
    const SHARED: bool = false;
    type V = Tag;
    type Chan = Box<GenericOneshotChannel<M, Tag>>;
    type Fut = ChannelReceiveFuture<'static, M, Tag>;
    fn new() -> Self::Chan {
        Box::new(GenericOneshotChannel::new())
    }
    fn mk(tag: u8) -> Tag {
        Tag(tag)
    }
    fn tag(v: &Tag) -> u8 {
        v.0
    }
    fn send(c: &Self::Chan, v: Tag) -> Option<Result<(), Tag>> {
        Some(c.send(v).map_err(|e| e.0))
    }
    fn close(c: &Self::Chan) -> CloseStatus {
        c.close()
    }
    fn receive(c: &Self::Chan) -> Self::Fut {
        let r: &'static GenericOneshotChannel<M, Tag> = unsafe { &*(&**c as *const _) };
        r.receive()
    }
    fn snapshot(c: &Self::Chan) -> Snapshot {
        c.verif_snapshot(&tag_of)
    }
    fn node(f: &Self::Fut) -> NodeSnap {
        f.verif_node()
    }
    fn debug(c: &Self::Chan) -> String {
        c.verif_debug()
    }
    fn node_debug(f: &Self::Fut) -> String {
        f.verif_node_debug()
    }
}

impl<M: RawMutex + 'static> Flavor for BBc<M> {
    const BROADCAST: bool = true;
    const SHARED: bool = false;
    type V = CTag;
    type Chan = Box<GenericOneshotBroadcastChannel<M, CTag>>;
    type Fut = ChannelReceiveFuture<'static, M, CTag>;
    fn new() -> Self::Chan {
        Box::new(GenericOneshotBroadcastChannel::new())
    }
    fn mk(tag: u8) -> CTag {
        CTag(tag)
    }
    fn tag(v: &CTag) -> u8 {
        v.0
    }
    fn send(c: &Self::Chan, v: CTag) -> Option<Result<(), CTag>> {
        Some(c.send(v).map_err(|e| e.0))
    }
    fn close(c: &Self::Chan) -> CloseStatus {
        c.close()
    }
    fn receive(c: &Self::Chan) -> Self::Fut {
        let r: &'static GenericOneshotBroadcastChannel<M, CTag> = unsafe { &*(&**c as *const _) };
        r.receive()
    }
    fn snapshot(c: &Self::Chan) -> Snapshot {
        c.verif_snapshot(&ctag_of)
    }
    fn node(f: &Self::Fut) -> NodeSnap {
        f.verif_node()
    }
    fn debug(c: &Self::Chan) -> String {
        c.verif_debug()
    }
    fn node_debug(f: &Self::Fut) -> String {
        f.verif_node_debug()
    }
}

pub struct SOneChan<M: RawMutex + 'static> {
    tx: Option<sh::GenericOneshotSender<M, Tag>>,
    rx: Option<sh::GenericOneshotReceiver<M, Tag>>,
    vref: sh::VerifSharedOneshot<M, Tag>,
}

impl<M: RawMutex + std::fmt::Debug + 'static> Flavor for SOne<M> {
    const BROADCAST: bool = false;
    const SHARED: bool = true;
    type V = Tag;
    type Chan = SOneChan<M>;
    type Fut = sh::ChannelReceiveFuture<M, Tag>;
    fn new() -> Self::Chan {
        let (tx, rx) = sh::generic_oneshot_channel::<M, Tag>();
        let vref = tx.verif_shared();
        SOneChan { tx: Some(tx), rx: Some(rx), vref }
    }
    fn mk(tag: u8) -> Tag {
        Tag(tag)
    }
    fn tag(v: &Tag) -> u8 {
        v.0
    }
    fn send(c: &Self::Chan, v: Tag) -> Option<Result<(), Tag>> {
        c.tx.as_ref().map(|t| t.send(v).map_err(|e| e.0))
    }
    fn close(_c: &Self::Chan) -> CloseStatus {
        unreachable!("shared oneshot handles have no close()")
    }
    fn receive(c: &Self::Chan) -> Self::Fut {
        c.rx.as_ref().unwrap().receive()
    }
    fn snapshot(c: &Self::Chan) -> Snapshot {
        c.vref.verif_snapshot(&tag_of).unwrap_or_else(dead_snapshot)
    }
    fn owners(c: &Self::Chan) -> Option<usize> {
        Some(c.vref.verif_owners())
    }
    fn node(f: &Self::Fut) -> NodeSnap {
        f.verif_node()
    }
    fn debug(c: &Self::Chan) -> String {
        c.vref.verif_debug().unwrap_or_default()
    }
    fn node_debug(f: &Self::Fut) -> String {
        f.verif_node_debug()
    }
    fn senders(c: &Self::Chan) -> usize {
        c.tx.is_some() as usize
    }
    fn receivers(c: &Self::Chan) -> usize {
        c.rx.is_some() as usize
    }
    fn drop_sender(c: &mut Self::Chan) {
        c.tx = None
    }
    fn drop_receiver(c: &mut Self::Chan) {
        c.rx = None
    }
}

pub struct SBcChan<M: RawMutex + 'static> {
    tx: Option<sh::GenericOneshotBroadcastSender<M, CTag>>,
    rx: Vec<sh::GenericOneshotBroadcastReceiver<M, CTag>>,
    vref: sh::VerifSharedOneshotBroadcast<M, CTag>,
}

impl<M: RawMutex + std::fmt::Debug + 'static> Flavor for SBc<M> {
    const BROADCAST: bool = true;
    const SHARED: bool = true;
    type V = CTag;
    type Chan = SBcChan<M>;
    type Fut = sh::ChannelReceiveFuture<M, CTag>;
    fn new() -> Self::Chan {
        let (tx, rx) = sh::generic_oneshot_broadcast_channel::<M, CTag>();
        let vref = tx.verif_shared();
        { let mut rxs = Vec::with_capacity(8); rxs.push(rx); SBcChan { tx: Some(tx), rx: rxs, vref } }
    }
    fn mk(tag: u8) -> CTag {
        CTag(tag)
    }
    fn tag(v: &CTag) -> u8 {
        v.0
    }
    fn send(c: &Self::Chan, v: CTag) -> Option<Result<(), CTag>> {
        c.tx.as_ref().map(|t| t.send(v).map_err(|e| e.0))
    }
    fn close(_c: &Self::Chan) -> CloseStatus {
        unreachable!("shared oneshot broadcast handles have no close()")
    }
    fn receive(c: &Self::Chan) -> Self::Fut {
        c.rx[0].receive()
    }
    fn snapshot(c: &Self::Chan) -> Snapshot {
        c.vref.verif_snapshot(&ctag_of).unwrap_or_else(dead_snapshot)
    }
    fn owners(c: &Self::Chan) -> Option<usize> {
        Some(c.vref.verif_owners())
    }
    fn node(f: &Self::Fut) -> NodeSnap {
        f.verif_node()
    }
    fn debug(c: &Self::Chan) -> String {
        c.vref.verif_debug().unwrap_or_default()
    }
    fn node_debug(f: &Self::Fut) -> String {
        f.verif_node_debug()
    }
    fn senders(c: &Self::Chan) -> usize {
        c.tx.is_some() as usize
    }
    fn receivers(c: &Self::Chan) -> usize {
        c.rx.len()
    }
    fn drop_sender(c: &mut Self::Chan) {
        c.tx = None
    }
    fn drop_receiver(c: &mut Self::Chan) {
        c.rx.pop();
    }
    fn clone_receiver(c: &mut Self::Chan) {
        let n = c.rx[0].clone();
        c.rx.push(n);
    }
}

#[derive(Clone, Copy, Debug, PartialEq)]
pub enum Op {
    Create(u8),
    Poll(u8, u8),
    PollDone(u8),
    DropFut(u8),
    Send,
    Close,
    DropSender,
    CloneReceiver,
    DropReceiver,
}

struct Slot<F: Flavor> {
    fut: Pinned<F::Fut>,
    meta: Meta,
}

pub struct Sys<F: Flavor> {
    slots: Vec<Option<Slot<F>>>,
    graveyard: Vec<Pinned<F::Fut>>,
    dead: Vec<(usize, usize)>,
    chan: F::Chan,
    k: usize,
    budget: u8,
    next_tag: u8,
    /// model: the channel accepts a value
    open: bool,
    /// model: accepted value
    value: Option<u8>,
    /// model: oneshot value was delivered
    taken: bool,
    newly_closed_seen: bool,
    close_calls: u8,
    max_handles: usize,
    symmetry: bool,
}

const G: usize = 0;

impl<F: Flavor> Sys<F> {
    fn live_nodes(&self) -> Vec<LiveNode> {
        let mut v = vec![];
        for (i, s) in self.slots.iter().enumerate() {
            if let Some(s) = s {
                let node = F::node(s.fut.get());
                v.push(LiveNode::new(G, i, node, &s.meta));
            }
        }
        v
    }

    fn invariants(&mut self, out: &mut StepOut) {
        let (na, mut nf) = harness::take_alloc_counts();
        if F::owners(&self.chan) == Some(0) {
            // this step dropped the last owner of the shared state: freeing it is destruction
            nf = 0;
        }
        if na + nf > 0 {
            out.p("C18", "alloc-in-call", format!("{} allocations / {} frees inside library calls of this step", na, nf));
        }
        let snap = F::snapshot(&self.chan);
        let live = self.live_nodes();
        structcheck::check_errors(&snap.errors, out);
        structcheck::check_queue("waiters", &snap.queues[0], &live, &self.dead, out);
        structcheck::check_membership(&[&snap.queues[0]], &live, out);
        for (i, s) in self.slots.iter().enumerate() {
            if let Some(s) = s {
                if s.fut.get().is_terminated() != s.meta.done {
                    out.p("C17", "is-terminated", format!("slot {}: is_terminated()={} but completed={}", i, s.fut.get().is_terminated(), s.meta.done));
                }
                if !self.open && s.meta.pending() && !fresh(G, i, &s.meta) {
                    // C12: "every receiver pending at the moment of the send or close has been woken";
                    // for a close C11 says the same ("after it ... every pending future has been woken")
                    let props: &[&'static str] = if self.value.is_some() { &["C12"] } else { &["C11", "C12"] };
                    for &p in props {
                        out.p(p, "pending-not-woken", format!("slot {}: the channel was {} while this receiver was pending, but it has not been woken through the waker of its latest poll", i, if self.value.is_some() { "fulfilled" } else { "closed" }));
                    }
                }
            }
        }
        // closed-ness (ground truth through the snapshot hook)
        let impl_closed = snap.scalars[0] != 0;
        if impl_closed != !self.open {
            out.v("C11", "closedness", format!("channel is {} but explicit close/send and handle counts (senders={}, receivers={}) say it must be {}", if impl_closed { "closed" } else { "open" }, F::senders(&self.chan), F::receivers(&self.chan), if self.open { "open" } else { "closed" }));
        }
    }
}

impl<F: Flavor> System for Sys<F> {
    type Op = Op;

    fn new(cfg: &Cfg) -> Self {
        let k = cfg.get("k") as usize;
        Sys {
            slots: (0..k).map(|_| None).collect(),
            graveyard: vec![],
            dead: vec![],
            chan: F::new(),
            k,
            budget: cfg.get_or("sends", 2) as u8,
            next_tag: 0,
            open: true,
            value: None,
            taken: false,
            newly_closed_seen: false,
            close_calls: 0,
            max_handles: cfg.get_or("handles", 3) as usize,
            symmetry: cfg.get_or("symmetry", 1) != 0,
        }
    }

    fn enabled(&self) -> Vec<Op> {
        let mut v = vec![];
        let mut created = false;
        for i in 0..self.k {
            match &self.slots[i] {
                None => {
                    if !(self.symmetry && created) && F::receivers(&self.chan) > 0 {
                        v.push(Op::Create(i as u8));
                        created = true;
                    }
                }
                Some(s) => {
                    if !s.meta.done {
                        v.push(Op::Poll(i as u8, 0));
                        v.push(Op::Poll(i as u8, 1));
                    } else if !s.meta.repolled {
                        v.push(Op::PollDone(i as u8));
                    }
                    v.push(Op::DropFut(i as u8));
                }
            }
        }
        if self.next_tag < self.budget && F::senders(&self.chan) > 0 {
            v.push(Op::Send);
        }
        if !F::SHARED {
            if self.close_calls < 2 {
                v.push(Op::Close);
            }
        } else {
            if F::senders(&self.chan) > 0 {
                v.push(Op::DropSender);
            }
            if F::receivers(&self.chan) > 0 {
                v.push(Op::DropReceiver);
                if F::BROADCAST && F::receivers(&self.chan) < self.max_handles {
                    v.push(Op::CloneReceiver);
                }
            }
        }
        v
    }

    fn apply(&mut self, op: Op, out: &mut StepOut) {
        let wakes_before = harness::all_wakes();
        match op {
            Op::Create(i) => {
                let i = i as usize;
                match lib(|| F::receive(&self.chan)) {
                    Ok(f) => {
                        let mut meta = Meta::default();
                        meta.seen = sample_seen(G, i);
                        self.slots[i] = Some(Slot { fut: Pinned::new(f), meta });
                    }
                    Err(p) => out.v("C01", "panic", format!("receive() panicked: {}", p)),
                }
            }
            Op::Poll(i, w) => {
                let i = i as usize;
                let seen = sample_seen(G, i);
                let waker = harness::waker(wid(G, i, w));
                let s = self.slots[i].as_mut().unwrap();
                let r = lib(|| s.fut.pin().poll(&mut Context::from_waker(&waker)));
                s.meta.polled = true;
                s.meta.last = w;
                s.meta.seen = seen;
                match r {
                    Err(p) => {
                        out.v("C01", "panic", format!("poll of slot {} panicked: {}", i, p));
                        out.corrupt = true;
                        s.meta.done = true;
                    }
                    Ok(Poll::Ready(Some(v))) => {
                        let t = F::tag(&v);
                        out.o(&format!("Some({})", t));
                        s.meta.done = true;
                        match self.value {
                            None => out.v("C12", "value-from-nowhere", format!("receive of slot {} yielded value {} although no send succeeded", i, t)),
                            Some(acc) => {
                                if acc != t {
                                    out.v("C12", "wrong-value", format!("receive of slot {} yielded value {} but the accepted value is {}", i, t, acc));
                                }
                                if !F::BROADCAST {
                                    if self.taken {
                                        out.v("C12", "delivered-twice", format!("the single value {} was yielded by a second receive (slot {})", t, i));
                                    }
                                    self.taken = true;
                                }
                            }
                        }
                        let _ = lib(|| drop(v));
                    }
                    Ok(Poll::Ready(None)) => {
                        out.o("None");
                        s.meta.done = true;
                        let available = self.value.is_some() && (F::BROADCAST || !self.taken);
                        if available {
                            out.v("C12", "none-despite-value", format!("receive of slot {} yielded None although value {:?} is available", i, self.value));
                        } else if self.open {
                            out.v("C11", "none-on-open-channel", format!("receive of slot {} yielded None although the channel is open", i));
                        }
                    }
                    Ok(Poll::Pending) => {
                        out.o("Pending");
                        if !self.open {
                            let p = if self.value.is_some() { "C12" } else { "C11" };
                            out.v(p, "pending-after-fulfil-or-close", format!("receive of slot {} returned Pending although the channel is {}", i, if self.value.is_some() { "fulfilled" } else { "closed" }));
                        }
                    }
                }
            }
            Op::PollDone(i) => {
                let i = i as usize;
                let waker = harness::waker(wid(G, i, 0));
                let s = self.slots[i].as_mut().unwrap();
                let r = lib(|| s.fut.pin().poll(&mut Context::from_waker(&waker)).map(|v| v.map(|x| F::tag(&x))));
                s.meta.repolled = true;
                match r {
                    Err(_) => out.o("panicked"),
                    Ok(p) => out.v("C17", "poll-after-completion", format!("polling the completed receive future of slot {} returned {:?} instead of panicking", i, p)),
                }
            }
            Op::DropFut(i) => {
                let mut s = self.slots[i as usize].take().unwrap();
                let range = s.fut.range();
                if let Err(p) = lib(|| s.fut.kill()) {
                    out.v("C01", "panic", format!("dropping the future of slot {} panicked: {}", i, p));
                    out.corrupt = true;
                }
                s.fut.release_memory_if_requested();
                self.dead.push(range);
                self.graveyard.push(s.fut);
            }
            Op::Send => {
                let t = self.next_tag;
                self.next_tag += 1;
                match lib(|| F::send(&self.chan, F::mk(t))) {
                    Err(p) => out.v("C01", "panic", format!("send() panicked: {}", p)),
                    Ok(None) => unreachable!(),
                    Ok(Some(Ok(()))) => {
                        out.o("Ok");
                        if !self.open {
                            out.v(if self.value.is_some() { "C12" } else { "C11" }, "send-accepted-when-not-open", format!("send({}) succeeded although the channel was already {}", t, if self.value.is_some() { "fulfilled" } else { "closed" }));
                        }
                        self.open = false;
                        self.value = Some(t);
                        self.taken = false;
                    }
                    Ok(Some(Err(v))) => {
                        out.o("Err");
                        if F::tag(&v) != t {
                            out.v("C11", "foreign-value-returned", format!("send({}) failed and handed back value {}", t, F::tag(&v)));
                        }
                        if self.open {
                            out.v("C12", "send-rejected-on-open-channel", format!("send({}) failed although the channel is open and empty", t));
                        }
                        let _ = lib(|| drop(v));
                    }
                }
            }
            Op::Close => {
                self.close_calls += 1;
                match lib(|| F::close(&self.chan)) {
                    Err(p) => out.v("C01", "panic", format!("close() panicked: {}", p)),
                    Ok(st) => {
                        out.o(&format!("{:?}", st));
                        let expect = if self.open { CloseStatus::NewlyClosed } else { CloseStatus::AlreadyClosed };
                        if st != expect {
                            out.v("C11", "close-status", format!("close() returned {:?}, expected {:?}", st, expect));
                        }
                        if st == CloseStatus::NewlyClosed {
                            if self.newly_closed_seen {
                                out.v("C11", "newly-closed-twice", "close() returned NewlyClosed a second time".to_string());
                            }
                            self.newly_closed_seen = true;
                        }
                        self.open = false;
                    }
                }
            }
            Op::DropSender => {
                if let Err(p) = lib(|| F::drop_sender(&mut self.chan)) {
                    out.v("C01", "panic", format!("dropping the sender panicked: {}", p));
                }
                if F::senders(&self.chan) == 0 {
                    self.open = false;
                }
            }
            Op::DropReceiver => {
                if let Err(p) = lib(|| F::drop_receiver(&mut self.chan)) {
                    out.v("C01", "panic", format!("dropping a receiver panicked: {}", p));
                }
                if F::receivers(&self.chan) == 0 {
                    self.open = false;
                }
            }
            Op::CloneReceiver => {
                if let Err(p) = lib(|| F::clone_receiver(&mut self.chan)) {
                    out.v("C01", "panic", format!("cloning a receiver panicked: {}", p));
                }
            }
        }
        let wakes_after = harness::all_wakes();
        let woken: Vec<usize> = (0..harness::MAX_WAKERS).filter(|&w| wakes_after[w] > wakes_before[w]).collect();
        if !woken.is_empty() {
            out.o(&format!("woke{:?}", woken));
        }
        self.invariants(out);
    }

    fn fingerprint(&self) -> Vec<u8> {
        let snap = F::snapshot(&self.chan);
        let mut v = vec![
            snap.scalars[0] as u8,
            if snap.scalars[1] == NO_VALUE { 255 } else { snap.scalars[1] as u8 },
            self.open as u8,
            self.value.map_or(255, |t| t),
            self.taken as u8,
            self.next_tag,
            self.close_calls,
            self.newly_closed_seen as u8,
            F::senders(&self.chan) as u8,
            F::receivers(&self.chan) as u8,
        ];
        let mut recs: Vec<Vec<u8>> = vec![];
        for i in 0..self.k {
            match &self.slots[i] {
                None => recs.push(vec![255]),
                Some(s) => {
                    let mut r = vec![s.meta.polled as u8, s.meta.done as u8, s.meta.repolled as u8];
                    if s.meta.pending() {
                        r.push(s.meta.last);
                        r.push(fresh(G, i, &s.meta) as u8);
                        r.push(stale_wake(G, i, &s.meta) as u8);
                    } else {
                        r.extend([9, 9, 9]);
                    }
                    let n = F::node(s.fut.get());
                    r.push(n.tag);
                    r.push(structcheck::waker_code(n.waker, G, i));
                    r.push(snap.queues[0].iter().position(|q| q.addr == n.addr).map_or(200, |p| p as u8));
                    r.push(s.fut.get().is_terminated() as u8);
                    r.extend(harness::norm(&F::node_debug(s.fut.get())));
                    recs.push(r);
                }
            }
        }
        if self.symmetry {
            recs.sort();
        }
        for r in recs {
            v.extend(r);
            v.push(253);
        }
        v.extend(harness::norm(&F::debug(&self.chan)));
        v
    }

    fn finish(self, _out: &mut StepOut) {}
}
