//! filoom - E-LOOM: thread schedules of the real generic code of
//! futures-intrusive, instantiated with a `lock_api::RawMutex` built on
//! `loom::sync::Mutex`. Every internal lock/unlock of a primitive is a loom
//! scheduling point; tasks are loom threads running `loom::future::block_on`,
//! so a lost wake-up is a loom deadlock.
//!
//!   filoom list
//!   filoom run <scenario> [--pb <preemption bound>|--pb none]
//!
//! A failing scenario panics (loom prints the reason); with
//! LOOM_CHECKPOINT_FILE set the failing schedule is left on disk and a re-run
//! with the same file replays exactly that schedule.

use futures_intrusive::buffer::{FixedHeapBuf, RingBuf};
use futures_intrusive::channel::shared as sh;
use futures_intrusive::channel::{GenericOneshotBroadcastChannel, GenericOneshotChannel, GenericStateBroadcastChannel, StateId};
use futures_intrusive::sync::{GenericManualResetEvent, GenericMutex, GenericSemaphore, GenericSharedSemaphore};
use futures_intrusive::timer::{Clock, GenericTimerService, Timer};
use lock_api::{GuardSend, RawMutex};
use loom::sync::{Arc, Mutex, MutexGuard};
use std::future::Future;
use std::sync::atomic::{AtomicU64, AtomicUsize, Ordering};
use std::sync::OnceLock;
use std::pin::Pin;
use std::task::{Context, Poll, RawWaker, RawWakerVTable, Waker};

// ------------------------------------------------ allocation counting (C18 under threads)
// Allocations and frees are counted while ARMED is set, i.e. inside library calls that a scenario
// wraps in `armed(..)`. Every function of this harness that performs a loom operation (lock shim,
// scheduling wakers, counter hook) runs it inside `unarmed(..)`: loom allocates for its own
// bookkeeping there, and - loom threads being coroutines on one OS thread - that is also the only
// place where another thread can get to run, so saving the flag on entry and restoring it on exit
// keeps it per loom thread.
struct CountingAlloc;
static ARMED: std::sync::atomic::AtomicBool = std::sync::atomic::AtomicBool::new(false);
static ALLOCS: AtomicUsize = AtomicUsize::new(0);
static FREES: AtomicUsize = AtomicUsize::new(0);
unsafe impl std::alloc::GlobalAlloc for CountingAlloc {
    unsafe fn alloc(&self, l: std::alloc::Layout) -> *mut u8 {
        if ARMED.load(Ordering::Relaxed) {
            ALLOCS.fetch_add(1, Ordering::Relaxed);
        }
        std::alloc::System.alloc(l)
    }
    unsafe fn dealloc(&self, p: *mut u8, l: std::alloc::Layout) {
        if ARMED.load(Ordering::Relaxed) {
            FREES.fetch_add(1, Ordering::Relaxed);
        }
        std::alloc::System.dealloc(p, l)
    }
    unsafe fn realloc(&self, p: *mut u8, l: std::alloc::Layout, n: usize) -> *mut u8 {
        if ARMED.load(Ordering::Relaxed) {
            ALLOCS.fetch_add(1, Ordering::Relaxed);
        }
        std::alloc::System.realloc(p, l, n)
    }
}
#[global_allocator]
static GA: CountingAlloc = CountingAlloc;
fn armed<R>(f: impl FnOnce() -> R) -> R {
    let prev = ARMED.swap(true, Ordering::Relaxed);
    let r = f();
    ARMED.store(prev, Ordering::Relaxed);
    r
}
fn unarmed<R>(f: impl FnOnce() -> R) -> R {
    let prev = ARMED.swap(false, Ordering::Relaxed);
    let r = f();
    ARMED.store(prev, Ordering::Relaxed);
    r
}

/// RawMutex on top of a native loom mutex: lock() takes the loom mutex and
/// stashes the guard, unlock() drops it. One loom operation per lock/unlock,
/// real blocking semantics.
pub struct LoomRaw {
    inner: OnceLock<Mutex<()>>,
    /// loom does not branch at a mutex release; an atomic RMW right before the
    /// release gives the scheduler the chance to run other threads WHILE the
    /// lock is held (they block in lock(), but a try_lock() observes "held")
    /// (taken from a pool that the main thread creates at the start of every execution: a loom
    /// atomic created lazily inside a spawned thread has no happens-before edge to its users in
    /// sibling threads, which loom reports as a causality violation of its own)
    tick: OnceLock<std::sync::Arc<loom::sync::atomic::AtomicUsize>>,
    guard: std::cell::UnsafeCell<Option<MutexGuard<'static, ()>>>,
}
impl LoomRaw {
    fn get(&self) -> &Mutex<()> {
        self.inner.get_or_init(|| Mutex::new(()))
    }
}
unsafe impl RawMutex for LoomRaw {
    #[allow(clippy::declare_interior_mutable_const)]
    const INIT: LoomRaw = LoomRaw { inner: OnceLock::new(), tick: OnceLock::new(), guard: std::cell::UnsafeCell::new(None) };
    type GuardMarker = GuardSend;
    fn lock(&self) {
        unarmed(|| self.lock_inner())
    }
    fn try_lock(&self) -> bool {
        unarmed(|| self.try_lock_inner())
    }
    unsafe fn unlock(&self) {
        unarmed(|| self.unlock_inner())
    }
}
impl LoomRaw {
    fn lock_inner(&self) {
        if preempt_after_unlock() {
            self.tick.get_or_init(next_tick).fetch_add(1, Ordering::Relaxed);
        }
        let g = self.get().lock().unwrap();
        unsafe { *self.guard.get() = Some(std::mem::transmute::<MutexGuard<'_, ()>, MutexGuard<'static, ()>>(g)) };
    }
    fn try_lock_inner(&self) -> bool {
        // same object as the holder's pre-release RMW: makes "try_lock while
        // another thread is inside the critical section" a dependent pair
        // that DPOR has to explore in both orders
        if preempt_in_critical_section() {
            self.tick.get_or_init(next_tick).fetch_add(1, Ordering::Relaxed);
        }
        match self.get().try_lock() {
            Ok(g) => {
                unsafe { *self.guard.get() = Some(std::mem::transmute::<MutexGuard<'_, ()>, MutexGuard<'static, ()>>(g)) };
                true
            }
            Err(_) => false,
        }
    }
    fn unlock_inner(&self) {
        if preempt_in_critical_section() {
            self.tick.get_or_init(next_tick).fetch_add(1, Ordering::Relaxed);
        }
        drop(unsafe { (*self.guard.get()).take() });
        // loom switches threads only in front of synchronisation operations: without one more
        // operation here (dependent with the one in front of every lock()), code that keeps
        // working on shared data AFTER leaving the critical section is never interleaved with
        // another thread's critical section
        if preempt_after_unlock() {
            self.tick.get_or_init(next_tick).fetch_add(1, Ordering::Relaxed);
        }
    }
}
unsafe impl Sync for LoomRaw {}
unsafe impl Send for LoomRaw {}

/// `loom::thread::spawn` followed by one operation on the object the lock shim uses: loom lets the
/// spawning thread run on until its next synchronisation operation, so without this the code that
/// directly follows a spawn (say, an unlocked fast path at the start of a poll) would always
/// execute before the new thread has done anything.
fn spawn<F, T>(f: F) -> loom::thread::JoinHandle<T>
where
    F: FnOnce() -> T + 'static,
    T: 'static,
{
    let h = loom::thread::spawn(f);
    unarmed(|| {
        wtick().fetch_add(1, Ordering::Relaxed);
    });
    h
}

const TICK_POOL: usize = 8;
static TICKS: std::sync::Mutex<Vec<std::sync::Arc<loom::sync::atomic::AtomicUsize>>> = std::sync::Mutex::new(Vec::new());
fn next_tick() -> std::sync::Arc<loom::sync::atomic::AtomicUsize> {
    // locks, scheduling wakers and `spawn` share one object, so that every such operation is
    // dependent with every critical section of the other threads (the per-lock pool is only used
    // with --per-lock-ticks)
    if !PER_LOCK_TICKS.load(Ordering::Relaxed) {
        return wtick();
    }
    TICKS.lock().unwrap().pop().unwrap_or_else(|| panic!("MACHINERY: more than {} locks in one execution", TICK_POOL))
}
static WAKER_POINTS: std::sync::atomic::AtomicBool = std::sync::atomic::AtomicBool::new(false);
static PER_LOCK_TICKS: std::sync::atomic::AtomicBool = std::sync::atomic::AtomicBool::new(false);
static WTICK: std::sync::Mutex<Option<std::sync::Arc<loom::sync::atomic::AtomicUsize>>> = std::sync::Mutex::new(None);
fn wtick() -> std::sync::Arc<loom::sync::atomic::AtomicUsize> {
    WTICK.lock().unwrap().as_ref().expect("wtick").clone()
}
fn reset_tick_pool() {
    *WTICK.lock().unwrap() = Some(std::sync::Arc::new(loom::sync::atomic::AtomicUsize::new(0)));
    let mut t = TICKS.lock().unwrap();
    t.clear();
    for _ in 0..TICK_POOL {
        t.push(std::sync::Arc::new(loom::sync::atomic::AtomicUsize::new(0)));
    }
}
static PREEMPT_AFTER_UNLOCK: std::sync::atomic::AtomicBool = std::sync::atomic::AtomicBool::new(true);
fn preempt_after_unlock() -> bool {
    PREEMPT_AFTER_UNLOCK.load(Ordering::Relaxed)
}
static PREEMPT_IN_CS: std::sync::atomic::AtomicBool = std::sync::atomic::AtomicBool::new(true);
fn preempt_in_critical_section() -> bool {
    PREEMPT_IN_CS.load(Ordering::Relaxed)
}

fn noop_waker() -> Waker {
    fn c(_: *const ()) -> RawWaker {
        RawWaker::new(std::ptr::null(), &VT)
    }
    fn n(_: *const ()) {}
    static VT: RawWakerVTable = RawWakerVTable::new(c, n, n, n);
    unsafe { Waker::from_raw(RawWaker::new(std::ptr::null(), &VT)) }
}

/// polls a future once with a waker that does nothing, then drops it: a task
/// that "times out" / abandons its wait
fn poll_once_and_drop<F: Future>(f: F) -> Option<F::Output> {
    let mut f = Box::pin(f);
    let w = noop_waker();
    let mut cx = Context::from_waker(&w);
    match f.as_mut().poll(&mut cx) {
        Poll::Ready(v) => Some(v),
        Poll::Pending => None,
    }
}

/// non-atomic payload: two live guards, or a guard used without
/// happens-before, is a loom causality violation
struct Tracked(loom::cell::UnsafeCell<u32>);
unsafe impl Send for Tracked {}
impl Tracked {
    fn new() -> Self {
        Tracked(loom::cell::UnsafeCell::new(0))
    }
    fn incr(&self) {
        self.0.with_mut(|p| unsafe { *p += 1 })
    }
    fn get(&self) -> u32 {
        self.0.with(|p| unsafe { *p })
    }
}

impl std::fmt::Debug for Tracked {
    fn fmt(&self, f: &mut std::fmt::Formatter) -> std::fmt::Result {
        // a read of the non-atomic payload: only legal for whoever holds the guard
        write!(f, "Tracked({})", self.get())
    }
}

struct HClock(AtomicU64);
impl Clock for HClock {
    /// The timer reads the clock INSIDE its critical section: the read is a scheduling point (an
    /// operation on the shared tick object), so that another thread can be scheduled while the
    /// reading thread holds the timer lock, between the clock read and whatever it does with it.
    fn now(&self) -> u64 {
        unarmed(|| {
            wtick().fetch_add(1, Ordering::Relaxed);
        });
        self.0.load(Ordering::SeqCst)
    }
}
static CLK: HClock = HClock(AtomicU64::new(0));

type Scenario = fn();

// ------------------------------------------------ waker replacement under threads

fn plain_waker() -> (Waker, std::sync::Arc<AtomicUsize>) {
    struct CW(std::sync::Arc<AtomicUsize>);
    impl std::task::Wake for CW {
        fn wake(self: std::sync::Arc<Self>) {
            self.0.fetch_add(1, Ordering::SeqCst);
        }
        fn wake_by_ref(self: &std::sync::Arc<Self>) {
            self.0.fetch_add(1, Ordering::SeqCst);
        }
    }
    let c = std::sync::Arc::new(AtomicUsize::new(0));
    (Waker::from(std::sync::Arc::new(CW(c.clone()))), c)
}

/// Counting waker whose clone / drop / wake are loom scheduling points (an RMW on the object the
/// lock shim uses in the scenarios tagged `wk:`), like the atomic reference count of a real
/// task waker: code that handles wakers outside the critical section, or reads / writes a wait
/// node around such a call without holding the lock, becomes interleavable there.
fn counting_waker() -> (Waker, std::sync::Arc<AtomicUsize>) {
    if !WAKER_POINTS.load(Ordering::Relaxed) {
        return plain_waker();
    }
    struct Inner {
        count: std::sync::Arc<AtomicUsize>,
    }
    fn point() {
        unarmed(|| {
            wtick().fetch_add(1, Ordering::Relaxed);
        });
    }
    unsafe fn clone(p: *const ()) -> RawWaker {
        point();
        std::sync::Arc::increment_strong_count(p as *const Inner);
        RawWaker::new(p, &VT)
    }
    unsafe fn wake(p: *const ()) {
        point();
        let a = std::sync::Arc::from_raw(p as *const Inner);
        a.count.fetch_add(1, Ordering::SeqCst);
    }
    unsafe fn wake_by_ref(p: *const ()) {
        point();
        (*(p as *const Inner)).count.fetch_add(1, Ordering::SeqCst);
    }
    unsafe fn drop_w(p: *const ()) {
        point();
        drop(std::sync::Arc::from_raw(p as *const Inner));
    }
    static VT: RawWakerVTable = RawWakerVTable::new(clone, wake, wake_by_ref, drop_w);
    let c = std::sync::Arc::new(AtomicUsize::new(0));
    let inner = std::sync::Arc::new(Inner { count: c.clone() });
    (unsafe { Waker::from_raw(RawWaker::new(std::sync::Arc::into_raw(inner) as *const (), &VT)) }, c)
}

/// The future is polled with waker 1 (pending), then - concurrently with the thread that
/// performs the enabling operation - polled again with waker 2. If it is still pending after
/// the enabling operation has finished, it must have been woken through waker 2 (the waker of
/// its latest poll) and must complete when polled again.
fn swap_check<F: Future>(prop: &str, what: &str, fut: F, spawn_enabler: impl FnOnce() -> loom::thread::JoinHandle<()>) {
    let mut fut = Box::pin(fut);
    let (w1, _c1) = counting_waker();
    let (w2, c2) = counting_waker();
    let (w3, _c3) = counting_waker();
    if fut.as_mut().poll(&mut Context::from_waker(&w1)).is_ready() {
        spawn_enabler().join().unwrap();
        return;
    }
    let h = spawn_enabler();
    let r2 = fut.as_mut().poll(&mut Context::from_waker(&w2)).is_ready();
    h.join().unwrap();
    if !r2 {
        assert!(c2.load(Ordering::SeqCst) > 0, "{}: {} is pending after the enabling operation but was not woken through the waker of its latest poll", prop, what);
        assert!(fut.as_mut().poll(&mut Context::from_waker(&w3)).is_ready(), "{}: {} does not complete although it was woken and the resource is available", prop, what);
    }
}

fn swap_mutex(fair: bool) {
    let m = Arc::new(GenericMutex::<LoomRaw, Tracked>::new(Tracked::new(), fair));
    let _ = m.is_locked();
    let holder = m.clone();
    // the guard is taken and released by the enabler thread; until it ran the mutex is held
    // 'static view of the mutex: `m` (here) and `holder` (enabler thread) keep it alive
    let mr: &'static GenericMutex<LoomRaw, Tracked> = unsafe { &*(&*m as *const GenericMutex<LoomRaw, Tracked>) };
    let g = mr.try_lock().unwrap();
    let gptr = SendBox(Box::new(g));
    swap_check("C03", "the lock future", mr.lock(), move || {
        spawn(move || {
            let g = gptr;
            // a neutral operation first: the concurrent re-poll may collide with a critical
            // section that does not notify anybody
            let _ = holder.is_locked();
            drop(g);
        })
    });
}
struct SendBox<T>(Box<T>);
unsafe impl<T> Send for SendBox<T> {}
fn swap_mutex_fair() {
    swap_mutex(true)
}
fn swap_mutex_unfair() {
    swap_mutex(false)
}
/// the notified lock future is dropped on one thread while another thread is inside an unrelated
/// critical section: the wake-up must be passed on
fn mutex_notified_drop_contended(fair: bool) {
    let m = Arc::new(GenericMutex::<LoomRaw, Tracked>::new(Tracked::new(), fair));
    let _ = m.is_locked();
    let mr: &'static GenericMutex<LoomRaw, Tracked> = unsafe { &*(&*m as *const GenericMutex<LoomRaw, Tracked>) };
    let g = mr.try_lock().unwrap();
    let mut f1 = Box::pin(mr.lock());
    let mut f2 = Box::pin(mr.lock());
    let (w1, c1) = counting_waker();
    let (w2, c2) = counting_waker();
    assert!(f1.as_mut().poll(&mut Context::from_waker(&w1)).is_pending());
    assert!(f2.as_mut().poll(&mut Context::from_waker(&w2)).is_pending());
    drop(g);
    assert_eq!(c1.load(Ordering::SeqCst), 1, "C03: unlock must wake the longest-waiting future");
    let m2 = m.clone();
    let hx = spawn(move || {
        let _ = m2.is_locked();
    });
    let hd = spawn(move || drop(f1));
    hx.join().unwrap();
    hd.join().unwrap();
    assert!(c2.load(Ordering::SeqCst) > 0, "C03: a notified lock future was dropped but the wake-up was not passed on");
    assert!(f2.as_mut().poll(&mut Context::from_waker(&w2)).is_ready(), "C03: the mutex is free but the woken future does not lock it");
    drop(f2);
}
fn mutex_notified_drop_contended_fair() {
    mutex_notified_drop_contended(true)
}
fn mutex_notified_drop_contended_unfair() {
    mutex_notified_drop_contended(false)
}

/// A thread drops the guard while the main thread barges with try_lock() and, if it got the lock,
/// keeps holding it until the unlocking thread has finished: whatever the unlocking thread does
/// after its critical section sees the mutex locked again. In the end the mutex is free, so the
/// parked waiter must hold a wake-up (from the first unlock or from the barger's).
fn mutex_barger_holds(fair: bool) {
    let m = Arc::new(GenericMutex::<LoomRaw, Tracked>::new(Tracked::new(), fair));
    let _ = m.is_locked();
    let mr: &'static GenericMutex<LoomRaw, Tracked> = unsafe { &*(&*m as *const GenericMutex<LoomRaw, Tracked>) };
    let g = mr.try_lock().unwrap();
    let mut f = Box::pin(mr.lock());
    let (w, c) = counting_waker();
    assert!(f.as_mut().poll(&mut Context::from_waker(&w)).is_pending());
    let gb = SendBox(Box::new(g));
    let keep = m.clone();
    let hu = spawn(move || {
        let g = gb;
        drop(g);
        let _ = &keep;
    });
    let barger = mr.try_lock();
    hu.join().unwrap();
    if let Some(g) = barger {
        g.incr();
        drop(g);
    }
    assert!(c.load(Ordering::SeqCst) > 0, "C03: the mutex is free and a lock future is pending, but it has not been woken since its last poll");
    match f.as_mut().poll(&mut Context::from_waker(&w)) {
        Poll::Ready(g) => drop(g),
        Poll::Pending => panic!("C03: the mutex is free but the woken lock future stays pending"),
    }
    drop(f);
    epilogue_mutex(&m);
}
fn mutex_barger_holds_fair() {
    mutex_barger_holds(true)
}
fn mutex_barger_holds_unfair() {
    mutex_barger_holds(false)
}

/// the same for the semaphore: a releaser is dropped by a thread while the main thread barges with
/// try_acquire() and holds its permit until that thread has finished
fn sem_barger_holds(fair: bool) {
    let s = Arc::new(GenericSemaphore::<LoomRaw>::new(fair, 1));
    let _ = s.permits();
    let sr: &'static GenericSemaphore<LoomRaw> = unsafe { &*(&*s as *const GenericSemaphore<LoomRaw>) };
    let r = sr.try_acquire(1).unwrap();
    let mut f = Box::pin(sr.acquire(1));
    let (w, c) = counting_waker();
    assert!(f.as_mut().poll(&mut Context::from_waker(&w)).is_pending());
    let rb = SendBox(Box::new(r));
    let keep = s.clone();
    let hu = spawn(move || {
        let r = rb;
        drop(r);
        let _ = &keep;
    });
    let barger = sr.try_acquire(1);
    hu.join().unwrap();
    drop(barger);
    assert!(c.load(Ordering::SeqCst) > 0, "C06: a permit is free and an acquire future is pending, but it has not been woken since its last poll");
    match f.as_mut().poll(&mut Context::from_waker(&w)) {
        Poll::Ready(r) => drop(r),
        Poll::Pending => panic!("C06: the permit is free but the woken acquire future stays pending"),
    }
    drop(f);
    epilogue_sem(&s, 1);
}
fn sem_barger_holds_fair() {
    sem_barger_holds(true)
}
fn sem_barger_holds_unfair() {
    sem_barger_holds(false)
}

/// Unfair mutex: the waiter has been notified, a try_lock() barged in; now the waiter is polled
/// again on one thread (it has to go back to waiting) while the barger's guard is dropped on
/// another. In the end the mutex is free: the waiter has locked it, or holds a wake-up through the
/// waker of that last poll.
fn mutex_requeue_vs_unlock() {
    let m = Arc::new(GenericMutex::<LoomRaw, Tracked>::new(Tracked::new(), false));
    let _ = m.is_locked();
    let mr: &'static GenericMutex<LoomRaw, Tracked> = unsafe { &*(&*m as *const GenericMutex<LoomRaw, Tracked>) };
    let g0 = mr.try_lock().unwrap();
    let mut f = Box::pin(mr.lock());
    let (w1, c1) = counting_waker();
    assert!(f.as_mut().poll(&mut Context::from_waker(&w1)).is_pending());
    drop(g0);
    assert_eq!(c1.load(Ordering::SeqCst), 1, "C03: unlock must wake the pending lock future");
    let barger = mr.try_lock().expect("C02: unfair try_lock on a free mutex");
    let fb = SendBox(Box::new(f));
    let keep = m.clone();
    let h = spawn(move || {
        let mut f = *fb.0;
        let (w2, c2) = counting_waker();
        let got = match f.as_mut().poll(&mut Context::from_waker(&w2)) {
            Poll::Ready(g) => {
                g.incr();
                drop(g);
                true
            }
            Poll::Pending => false,
        };
        let _ = &keep;
        (SendBox(Box::new(f)), w2, c2, got)
    });
    barger.incr();
    drop(barger);
    let (fb, w2, c2, got) = h.join().unwrap();
    let mut f = *fb.0;
    if !got {
        assert!(c2.load(Ordering::SeqCst) > 0, "C03: the mutex is free and a lock future is pending, but it has not been woken since its last poll");
        match f.as_mut().poll(&mut Context::from_waker(&w2)) {
            Poll::Ready(g) => drop(g),
            Poll::Pending => panic!("C03: the mutex is free but the woken lock future stays pending"),
        }
    }
    drop(f);
    epilogue_mutex(&m);
}

fn sem_notified_drop_contended(fair: bool) {
    let s = Arc::new(GenericSemaphore::<LoomRaw>::new(fair, 0));
    let _ = s.permits();
    let sr: &'static GenericSemaphore<LoomRaw> = unsafe { &*(&*s as *const GenericSemaphore<LoomRaw>) };
    let mut f1 = Box::pin(sr.acquire(1));
    let mut f2 = Box::pin(sr.acquire(1));
    let (w1, c1) = counting_waker();
    let (w2, c2) = counting_waker();
    assert!(f1.as_mut().poll(&mut Context::from_waker(&w1)).is_pending());
    assert!(f2.as_mut().poll(&mut Context::from_waker(&w2)).is_pending());
    s.release(1);
    assert_eq!(c1.load(Ordering::SeqCst), 1, "C06: release must wake the longest-waiting request that fits");
    let s2 = s.clone();
    let hx = spawn(move || {
        let _ = s2.permits();
    });
    let hd = spawn(move || drop(f1));
    hx.join().unwrap();
    hd.join().unwrap();
    assert!(c2.load(Ordering::SeqCst) > 0, "C06: a notified acquire future was dropped but the wake-up was not passed on");
    match f2.as_mut().poll(&mut Context::from_waker(&w2)) {
        Poll::Ready(mut r) => {
            r.disarm();
        }
        Poll::Pending => panic!("C06: the permit is available but the woken future does not acquire it"),
    }
    drop(f2);
}
fn sem_notified_drop_contended_fair() {
    sem_notified_drop_contended(true)
}
fn sem_notified_drop_contended_unfair() {
    sem_notified_drop_contended(false)
}

/// fair mutex: two lock futures registered in a known order are re-polled by two threads after
/// the unlock; the order in which they enter the critical section must be the arrival order
fn mutex_fair_order() {
    struct Log(loom::cell::UnsafeCell<Vec<u8>>);
    unsafe impl Send for Log {}
    let m = Arc::new(GenericMutex::<LoomRaw, Log>::new(Log(loom::cell::UnsafeCell::new(vec![])), true));
    let _ = m.is_locked();
    let mr: &'static GenericMutex<LoomRaw, Log> = unsafe { &*(&*m as *const GenericMutex<LoomRaw, Log>) };
    let g = mr.try_lock().unwrap();
    let mut f1 = Box::pin(mr.lock());
    let mut f2 = Box::pin(mr.lock());
    let (w, _c) = counting_waker();
    assert!(f1.as_mut().poll(&mut Context::from_waker(&w)).is_pending());
    assert!(f2.as_mut().poll(&mut Context::from_waker(&w)).is_pending());
    drop(g);
    let keep1 = m.clone();
    let h2 = spawn(move || {
        // the LATER waiter is polled (possibly first): it may only lock after the earlier one
        loom::future::block_on(async move {
            let g = f2.await;
            g.0.with_mut(|v| unsafe { (*v).push(2) });
        });
        let _ = &keep1;
    });
    let keep2 = m.clone();
    let h1 = spawn(move || {
        loom::future::block_on(async move {
            let g = f1.await;
            g.0.with_mut(|v| unsafe { (*v).push(1) });
        });
        let _ = &keep2;
    });
    h1.join().unwrap();
    h2.join().unwrap();
    let g = m.try_lock().expect("C03: mutex not lockable after all tasks finished");
    let order = g.0.with(|v| unsafe { (*v).clone() });
    assert_eq!(order, vec![1, 2], "C04: fair mutex granted the lock out of arrival order");
}

/// fair semaphore: a large request queued first must not be overtaken by a later small one.
/// Only 2 permits exist in total, so the holders of 2 and of 1 permit exclude each other and the
/// order recorded WHILE HOLDING the permits is the order of completion (recording after the permits
/// were given up, or with enough permits for both, would race with the other thread's recording)
fn sem_fair_order() {
    let s = Arc::new(GenericSemaphore::<LoomRaw>::new(true, 0));
    let _ = s.permits();
    let sr: &'static GenericSemaphore<LoomRaw> = unsafe { &*(&*s as *const GenericSemaphore<LoomRaw>) };
    let order = std::sync::Arc::new(std::sync::Mutex::new(Vec::<u8>::new()));
    let mut f1 = Box::pin(sr.acquire(2));
    let mut f2 = Box::pin(sr.acquire(1));
    let (w, _c) = counting_waker();
    assert!(f1.as_mut().poll(&mut Context::from_waker(&w)).is_pending());
    assert!(f2.as_mut().poll(&mut Context::from_waker(&w)).is_pending());
    let (o1, o2) = (order.clone(), order.clone());
    let keep1 = s.clone();
    let h2 = spawn(move || {
        loom::future::block_on(async move {
            let r = f2.await;
            o2.lock().unwrap().push(2);
            drop(r);
        });
        let _ = &keep1;
    });
    let keep2 = s.clone();
    let h1 = spawn(move || {
        loom::future::block_on(async move {
            let r = f1.await;
            o1.lock().unwrap().push(1);
            drop(r);
        });
        let _ = &keep2;
    });
    s.release(1);
    s.release(1);
    h1.join().unwrap();
    h2.join().unwrap();
    assert_eq!(*order.lock().unwrap(), vec![1, 2], "C07: fair semaphore served a later request before an earlier pending one");
    assert_eq!(s.permits(), 2, "C05: permits not conserved");
}

fn swap_sem(fair: bool) {
    let s = Arc::new(GenericSemaphore::<LoomRaw>::new(fair, 0));
    let _ = s.permits();
    let s2 = s.clone();
    swap_check("C06", "the acquire future", s.acquire(1), move || {
        spawn(move || {
            let _ = s2.permits();
            s2.release(1)
        })
    });
}
fn swap_sem_fair() {
    swap_sem(true)
}
fn swap_sem_unfair() {
    swap_sem(false)
}
fn swap_event() {
    let e = Arc::new(GenericManualResetEvent::<LoomRaw>::new(false));
    let _ = e.is_set();
    let e2 = e.clone();
    swap_check("C14", "the wait future", e.wait(), move || {
        spawn(move || {
            let _ = e2.is_set();
            e2.set()
        })
    });
}
fn swap_mpmc_recv() {
    let (tx, rx) = sh::generic_channel::<LoomRaw, u32, FixedHeapBuf<u32>>(1);
    let _ = rx.try_receive();
    let rx2 = rx.clone();
    swap_check("C10", "the receive future", rx.receive(), move || {
        spawn(move || {
            let _ = rx2.try_receive();
            let _ = tx.try_send(1);
            let _keep = rx2;
        })
    });
}
fn swap_mpmc_send() {
    let (tx, rx) = sh::generic_channel::<LoomRaw, u32, FixedHeapBuf<u32>>(1);
    let _ = rx.try_receive();
    tx.try_send(1).unwrap();
    let tx2 = tx.clone();
    swap_check("C10", "the send future", tx.send(2), move || {
        spawn(move || {
            let _ = tx2.try_send(9);
            let _ = rx.try_receive();
            // keep the receiver alive until the sender side is done
            let _keep = rx;
        })
    });
}
fn swap_oneshot() {
    let c = Arc::new(GenericOneshotBroadcastChannel::<LoomRaw, u32>::new());
    let _ = poll_once_and_drop(c.receive());
    let c2 = c.clone();
    swap_check("C12", "the receive future", c.receive(), move || {
        spawn(move || {
            let _ = c2.send(1);
        })
    });
}
fn swap_state() {
    let c = Arc::new(GenericStateBroadcastChannel::<LoomRaw, u32>::new());
    let _ = c.try_receive(StateId::new());
    let c2 = c.clone();
    swap_check("C13", "the state receive future", c.receive(StateId::new()), move || {
        spawn(move || {
            let _ = c2.try_receive(StateId::new());
            let _ = c2.send(1);
        })
    });
}
fn swap_timer() {
    CLK.0.store(0, Ordering::SeqCst);
    let t = Arc::new(GenericTimerService::<LoomRaw>::new(&CLK));
    let _ = t.next_expiration();
    let t2 = t.clone();
    swap_check("C15", "the timer future", Timer::deadline(&*t, 1), move || {
        spawn(move || {
            let _ = t2.next_expiration();
            CLK.0.store(1, Ordering::SeqCst);
            t2.check_expirations();
        })
    });
}


// ------------------------------------------------ payload access is exclusive (C16, semantic side)
// The broadcast channels are `Sync` for payloads that are only `Send`: that is sound only because
// every access the channel itself makes to the stored value (`T::clone(&stored)`) happens inside
// the channel's critical section. `Probe` is such a payload - `clone(&self)` mutates a non-atomic
// cell inside `self`, which is legal for a `!Sync` type - and the cell is a `loom::cell`, so two
// threads inside `clone()` of the same stored value, or a clone that is not ordered after the
// send, are a loom causality violation.
struct Probe(loom::cell::UnsafeCell<u32>);
unsafe impl Send for Probe {}
impl Probe {
    fn new() -> Probe {
        Probe(loom::cell::UnsafeCell::new(0))
    }
}
impl Clone for Probe {
    fn clone(&self) -> Probe {
        self.0.with_mut(|p| unsafe { *p += 1 });
        Probe::new()
    }
}

fn bcast_clone_exclusive() {
    let c = Arc::new(GenericOneshotBroadcastChannel::<LoomRaw, Probe>::new());
    let _ = poll_once_and_drop(c.receive());
    let hs: Vec<_> = (0..2)
        .map(|_| {
            let c = c.clone();
            spawn(move || {
                let got = loom::future::block_on(async { c.receive().await });
                assert!(got.is_some(), "C12: every receiver gets a clone of the value");
            })
        })
        .collect();
    assert!(c.send(Probe::new()).is_ok(), "C12: first send on an open channel must succeed");
    for h in hs {
        h.join().unwrap();
    }
}

fn state_clone_exclusive() {
    let c = Arc::new(GenericStateBroadcastChannel::<LoomRaw, Probe>::new());
    let _ = c.try_receive(StateId::new()).is_some();
    let hs: Vec<_> = (0..2)
        .map(|_| {
            let c = c.clone();
            spawn(move || {
                let got = loom::future::block_on(async { c.receive(StateId::new()).await });
                assert!(got.is_some(), "C13: a receiver waiting for something newer gets the published state");
            })
        })
        .collect();
    assert!(c.send(Probe::new()).is_ok(), "C13: send on an open channel must succeed");
    for h in hs {
        h.join().unwrap();
    }
}

/// `Debug` formatting of the mutex, of a pending lock future and of whatever it yields runs on
/// one thread while another one modifies the payload under the guard: the mutex is `Sync` for a
/// payload that is only `Send`, so formatting must not look at the payload without the lock.
fn mutex_debug_vs_guard() {
    let m = Arc::new(GenericMutex::<LoomRaw, Tracked>::new(Tracked::new(), false));
    let _ = m.is_locked();
    let m1 = m.clone();
    let h = spawn(move || {
        loom::future::block_on(async {
            let g = m1.lock().await;
            g.incr();
        });
    });
    let text = format!("{:?}", m);
    assert!(!text.is_empty());
    {
        let f = m.lock();
        let _ = format!("{:?}", f);
    }
    if let Some(g) = m.try_lock() {
        let _ = format!("{:?}", g);
        g.incr();
    }
    h.join().unwrap();
    let g = m.try_lock().expect("C03: mutex not lockable after all tasks finished");
    assert!(g.get() >= 1, "C02: lost update under the guard");
    drop(g);
    epilogue_mutex(&m);
}

// ------------------------------------------------ writes into a completed, dropped future
/// Storage for a future that is dropped in place and whose memory is then made inaccessible
/// (its own pages, `mprotect(PROT_NONE)`): a library that still reads or writes the "dropped
/// future" (C01) faults, and the SIGSEGV handler below turns a fault inside such a region into a
/// C01 report instead of a crash or silent corruption of the allocator.
struct PoisonBox<F> {
    mem: *mut F,
    len: usize,
    alive: bool,
}
const MAX_POISON: usize = 8;
static POISON: [(AtomicUsize, AtomicUsize); MAX_POISON] = [
    (AtomicUsize::new(0), AtomicUsize::new(0)),
    (AtomicUsize::new(0), AtomicUsize::new(0)),
    (AtomicUsize::new(0), AtomicUsize::new(0)),
    (AtomicUsize::new(0), AtomicUsize::new(0)),
    (AtomicUsize::new(0), AtomicUsize::new(0)),
    (AtomicUsize::new(0), AtomicUsize::new(0)),
    (AtomicUsize::new(0), AtomicUsize::new(0)),
    (AtomicUsize::new(0), AtomicUsize::new(0)),
];
extern "C" fn on_segv(_sig: libc::c_int, info: *mut libc::siginfo_t, _ctx: *mut libc::c_void) {
    let addr = unsafe { (*info).si_addr() } as usize;
    let hit = POISON.iter().any(|(s, l)| {
        let (s, l) = (s.load(Ordering::Relaxed), l.load(Ordering::Relaxed));
        s != 0 && addr >= s && addr < s + l
    });
    let msg: &[u8] = if hit {
        b"\nthread 'main' panicked at poisonbox:\nC01: a library call accessed the memory of a future after it had completed and been dropped\n"
    } else {
        b"\nfiloom: SIGSEGV outside every poisoned region (harness or library crash)\n"
    };
    unsafe {
        libc::write(2, msg.as_ptr() as *const libc::c_void, msg.len());
        libc::_exit(if hit { 101 } else { 139 });
    }
}
fn install_segv_handler() {
    unsafe {
        // the handler runs on its own stack (the fault may happen on a small coroutine stack)
        let sz = 64 * 1024;
        let stack = libc::mmap(std::ptr::null_mut(), sz, libc::PROT_READ | libc::PROT_WRITE, libc::MAP_PRIVATE | libc::MAP_ANONYMOUS, -1, 0);
        let ss = libc::stack_t { ss_sp: stack, ss_flags: 0, ss_size: sz };
        libc::sigaltstack(&ss, std::ptr::null_mut());
        let mut sa: libc::sigaction = std::mem::zeroed();
        sa.sa_sigaction = on_segv as usize;
        sa.sa_flags = libc::SA_SIGINFO | libc::SA_ONSTACK;
        libc::sigaction(libc::SIGSEGV, &sa, std::ptr::null_mut());
        libc::sigaction(libc::SIGBUS, &sa, std::ptr::null_mut());
    }
}
impl<F> PoisonBox<F> {
    fn new(f: F) -> Self {
        let len = (std::mem::size_of::<F>().max(1) + 4095) / 4096 * 4096;
        let mem = unsafe { libc::mmap(std::ptr::null_mut(), len, libc::PROT_READ | libc::PROT_WRITE, libc::MAP_PRIVATE | libc::MAP_ANONYMOUS, -1, 0) };
        assert!(mem != libc::MAP_FAILED, "MACHINERY: mmap failed");
        let mem = mem as *mut F;
        unsafe { mem.write(f) };
        PoisonBox { mem, len, alive: true }
    }
    fn pin(&mut self) -> Pin<&mut F> {
        assert!(self.alive);
        unsafe { Pin::new_unchecked(&mut *self.mem) }
    }
    fn kill(&mut self) {
        assert!(self.alive);
        unsafe {
            std::ptr::drop_in_place(self.mem);
            libc::mprotect(self.mem as *mut libc::c_void, self.len, libc::PROT_NONE);
        }
        let slot = POISON.iter().find(|(s, _)| s.load(Ordering::Relaxed) == 0).expect("MACHINERY: too many poisoned regions");
        slot.1.store(self.len, Ordering::Relaxed);
        slot.0.store(self.mem as usize, Ordering::Relaxed);
        self.alive = false;
    }
}
impl<F> Drop for PoisonBox<F> {
    fn drop(&mut self) {
        unsafe {
            if self.alive {
                std::ptr::drop_in_place(self.mem);
            } else if let Some(slot) = POISON.iter().find(|(s, _)| s.load(Ordering::Relaxed) == self.mem as usize) {
                slot.0.store(0, Ordering::Relaxed);
            }
            libc::munmap(self.mem as *mut libc::c_void, self.len);
        }
    }
}

/// The owner of a registered timer future re-polls it while the timer thread expires it, and
/// drops it as soon as it has completed: the timer thread must not touch it afterwards. (The
/// waker is a scheduling one: the owner may run while the timer thread is inside `wake()`.)
fn timer_expire_vs_complete() {
    CLK.0.store(0, Ordering::SeqCst);
    let t = Arc::new(GenericTimerService::<LoomRaw>::new(&CLK));
    let _ = t.next_expiration();
    let tr: &'static GenericTimerService<LoomRaw> = unsafe { &*(&*t as *const GenericTimerService<LoomRaw>) };
    let mut f = PoisonBox::new(Timer::deadline(tr, 1));
    let (w, c) = counting_waker();
    assert!(f.pin().poll(&mut Context::from_waker(&w)).is_pending());
    let t1 = t.clone();
    let h = spawn(move || {
        CLK.0.store(1, Ordering::SeqCst);
        t1.check_expirations();
    });
    let mut killed = false;
    if f.pin().poll(&mut Context::from_waker(&w)).is_ready() {
        f.kill();
        killed = true;
    }
    h.join().unwrap();
    // (an access to the dropped future by the timer thread is reported by the SIGSEGV handler)
    if !killed {
        assert!(c.load(Ordering::SeqCst) > 0, "C15: check_expirations() ran with clock >= deadline but the registered future was not woken");
        assert!(f.pin().poll(&mut Context::from_waker(&w)).is_ready(), "C15: due timer future does not complete");
        f.kill();
    }
    epilogue_timer(&t, 1);
}

/// the same for the event: the waiter completes and is dropped while set() is still running
fn event_set_vs_complete() {
    let e = Arc::new(GenericManualResetEvent::<LoomRaw>::new(false));
    let _ = e.is_set();
    let er: &'static GenericManualResetEvent<LoomRaw> = unsafe { &*(&*e as *const GenericManualResetEvent<LoomRaw>) };
    let mut f = PoisonBox::new(er.wait());
    let mut f2 = Box::pin(er.wait());
    let (w, c) = counting_waker();
    let (w2, _c2) = counting_waker();
    assert!(f2.as_mut().poll(&mut Context::from_waker(&w2)).is_pending());
    assert!(f.pin().poll(&mut Context::from_waker(&w)).is_pending());
    let e1 = e.clone();
    let h = spawn(move || e1.set());
    let mut killed = false;
    if f.pin().poll(&mut Context::from_waker(&w)).is_ready() {
        f.kill();
        killed = true;
    }
    h.join().unwrap();
    if !killed {
        assert!(c.load(Ordering::SeqCst) > 0, "C14: set() did not wake a pending waiter");
        assert!(f.pin().poll(&mut Context::from_waker(&w)).is_ready(), "C14: wait future pending although the event is set");
        f.kill();
    }
    assert!(f2.as_mut().poll(&mut Context::from_waker(&w2)).is_ready());
    drop(f2);
    epilogue_event(&e);
}

// ------------------------------------------------ the buffer is only touched under the channel lock
/// A legal user `RingBuf` that is `Send` but not `Sync`: every `&self` method reads, every
/// `&mut self` method writes a `loom::cell`. The channel is `Sync` for such a buffer because it only
/// calls them inside its critical section; a peek at the buffer without the lock is a loom causality
/// violation here (C16, semantic side).
struct ProbeBuf {
    probe: loom::cell::UnsafeCell<u32>,
    items: std::collections::VecDeque<u32>,
    cap: usize,
}
unsafe impl Send for ProbeBuf {}
impl RingBuf for ProbeBuf {
    type Item = u32;
    fn new() -> Self {
        Self::with_capacity(2)
    }
    fn with_capacity(cap: usize) -> Self {
        ProbeBuf { probe: loom::cell::UnsafeCell::new(0), items: std::collections::VecDeque::with_capacity(cap), cap }
    }
    fn capacity(&self) -> usize {
        self.probe.with(|_| ());
        self.cap
    }
    fn len(&self) -> usize {
        self.probe.with(|_| ());
        self.items.len()
    }
    fn can_push(&self) -> bool {
        self.probe.with(|_| ());
        self.items.len() < self.cap
    }
    fn push(&mut self, item: u32) {
        self.probe.with_mut(|p| unsafe { *p += 1 });
        self.items.push_back(item)
    }
    fn pop(&mut self) -> u32 {
        self.probe.with_mut(|p| unsafe { *p += 1 });
        self.items.pop_front().expect("pop on empty ProbeBuf")
    }
}

fn mpmc_buffer_exclusive() {
    let (tx, rx) = sh::generic_channel::<LoomRaw, u32, ProbeBuf>(2);
    let _ = rx.try_receive();
    let h1 = spawn(move || {
        let _ = tx.try_send(1);
        let _ = tx.try_send(2);
    });
    let rx2 = rx.clone();
    let h2 = spawn(move || {
        let a = rx2.try_receive().ok();
        let b = rx2.try_receive().ok();
        (a, b)
    });
    let c = rx.try_receive().ok();
    h1.join().unwrap();
    let (a, b) = h2.join().unwrap();
    let mut got: Vec<u32> = [a, b, c].iter().flatten().copied().collect();
    while let Ok(v) = rx.try_receive() {
        got.push(v);
    }
    got.sort();
    assert_eq!(got, vec![1, 2], "C08: every accepted value is received exactly once");
}

/// The first poll of a timer future (clock still below the deadline when it is read, inside the
/// timer lock) races with a thread that advances the clock to the deadline and calls
/// check_expirations(): either the poll already sees the new clock value and completes, or the
/// check sees the registered future and wakes it.
fn timer_check_vs_first_poll() {
    CLK.0.store(5, Ordering::SeqCst);
    let t = Arc::new(GenericTimerService::<LoomRaw>::new(&CLK));
    let _ = t.next_expiration();
    let tr: &'static GenericTimerService<LoomRaw> = unsafe { &*(&*t as *const GenericTimerService<LoomRaw>) };
    let mut f = Box::pin(Timer::deadline(tr, 10));
    let (w, c) = counting_waker();
    let t1 = t.clone();
    let h = spawn(move || {
        CLK.0.store(10, Ordering::SeqCst);
        t1.check_expirations();
    });
    let ready = f.as_mut().poll(&mut Context::from_waker(&w)).is_ready();
    h.join().unwrap();
    if !ready {
        assert!(c.load(Ordering::SeqCst) > 0, "C15: a check_expirations() that ran with clock >= deadline missed the registered, due timer");
        assert!(f.as_mut().poll(&mut Context::from_waker(&w)).is_ready(), "C15: due timer future does not complete");
    }
    drop(f);
    epilogue_timer(&t, 10);
}

/// Two sender clones publish concurrently; each thread remembers what it could read right after
/// its own send. Afterwards the channel must behave like one that has seen two publications:
/// from an older id one gets the latest state, from the latest id nothing.
fn state_two_senders() {
    let (tx, rx) = sh::generic_state_broadcast_channel::<LoomRaw, u32>();
    let _ = rx.try_receive(StateId::new());
    let hs: Vec<_> = [100u32, 200]
        .iter()
        .map(|&v| {
            let tx = tx.clone();
            spawn(move || {
                assert!(tx.send(v).is_ok(), "C13: send on an open channel failed");
            })
        })
        .collect();
    // a follower that waits for the first publication it can get: it may end up holding the id
    // of the older of the two states
    let rxf = rx.clone();
    let hf = spawn(move || loom::future::block_on(async { rxf.receive(StateId::new()).await }).expect("C13: receive on an open channel yielded None"));
    for h in hs {
        h.join().unwrap();
    }
    let seen = hf.join().unwrap();
    let (latest_id, latest_v) = rx.try_receive(StateId::new()).expect("C13: nothing published after two sends");
    assert!(rx.try_receive(latest_id).is_none(), "C13: try_receive(latest id) yields a state");
    let (id, v) = seen;
    assert!(id <= latest_id, "C13: an id observed earlier is larger than the latest one");
    if id < latest_id {
        match rx.try_receive(id) {
            Some((nid, nv)) => assert!(nid == latest_id && nv == latest_v, "C13: try_receive(older id) did not yield the latest state"),
            None => panic!("C13: try_receive returned None for id {:?} although state {:?} (value {}) is published and both sends have returned", id, latest_id, latest_v),
        }
    } else {
        assert_eq!(v, latest_v, "C13: two different values under the same id");
    }
    epilogue_state_shared(&tx, &rx, 300);
}

fn epilogue_state_shared(tx: &sh::GenericStateSender<LoomRaw, u32>, rx: &sh::GenericStateReceiver<LoomRaw, u32>, v: u32) {
    let id = rx.try_receive(StateId::new()).map(|x| x.0).unwrap_or_else(StateId::new);
    let mut f = Box::pin(rx.receive(id));
    let (w, cnt) = counting_waker();
    assert!(f.as_mut().poll(&mut Context::from_waker(&w)).is_pending(), "C13: receive completed although nothing newer was published");
    tx.send(v).expect("C13: send on an open channel failed");
    assert!(cnt.load(Ordering::SeqCst) > 0, "C13: send() did not wake the pending receiver");
    match f.as_mut().poll(&mut Context::from_waker(&w)) {
        Poll::Ready(Some((nid, x))) => {
            assert!(nid > id, "C13: id not increasing");
            assert_eq!(x, v, "C13: receiver did not get the latest state");
        }
        _ => panic!("C13: pending receiver did not get the published state"),
    }
}

/// Two threads call send() through the SAME shared oneshot sender handle. Exactly one send is
/// accepted; a thread whose send was rejected then starts a receive, which must find the channel
/// fulfilled (a rejection means that a send or close has taken effect before).
fn oneshot_two_sends_by_ref() {
    let (tx, rx) = sh::generic_oneshot_channel::<LoomRaw, u32>();
    let tx = std::sync::Arc::new(tx);
    let rx = std::sync::Arc::new(rx);
    let hs: Vec<_> = [1u32, 2]
        .iter()
        .map(|&v| {
            let tx = tx.clone();
            let rx = rx.clone();
            spawn(move || match tx.send(v) {
                Ok(()) => true,
                Err(_) => {
                    let r = poll_once_and_drop(rx.receive());
                    assert!(matches!(r, Some(Some(_))), "C12: a send was rejected although no send or close had taken effect (a receive started afterwards is {:?})", r);
                    false
                }
            })
        })
        .collect();
    let oks: Vec<bool> = hs.into_iter().map(|h| h.join().unwrap()).collect();
    assert_eq!(oks.iter().filter(|b| **b).count(), 1, "C12: exactly one send on an open oneshot channel is accepted");
}

// ------------------------------------------------ drop without a further poll while the wake-up is in progress
// The owner drops its pending future (into a PoisonBox) while another thread performs the operation
// that completes it; the waker is a scheduling one, so the owner may run while the other thread is
// inside `wake()`. A `Drop` that looks at its node before taking the lock and decides there is
// nothing to unlink lets the other thread touch the dropped future afterwards.

fn timer_expire_vs_drop() {
    CLK.0.store(0, Ordering::SeqCst);
    let t = Arc::new(GenericTimerService::<LoomRaw>::new(&CLK));
    let _ = t.next_expiration();
    let tr: &'static GenericTimerService<LoomRaw> = unsafe { &*(&*t as *const GenericTimerService<LoomRaw>) };
    let mut f = PoisonBox::new(Timer::deadline(tr, 1));
    let mut other = Box::pin(Timer::deadline(tr, 3));
    let (w, _c) = counting_waker();
    let (wo, co) = counting_waker();
    assert!(f.pin().poll(&mut Context::from_waker(&w)).is_pending());
    assert!(other.as_mut().poll(&mut Context::from_waker(&wo)).is_pending());
    let t1 = t.clone();
    let h = spawn(move || {
        CLK.0.store(1, Ordering::SeqCst);
        t1.check_expirations();
    });
    f.kill();
    h.join().unwrap();
    assert_eq!(co.load(Ordering::SeqCst), 0, "C15: a timer with deadline 3 was woken at clock 1");
    assert_eq!(t.next_expiration(), Some(3), "C15/C01: a registered timer that is not due has been lost from the heap");
    CLK.0.store(3, Ordering::SeqCst);
    t.check_expirations();
    assert!(co.load(Ordering::SeqCst) > 0, "C15: due timer not woken");
    assert!(other.as_mut().poll(&mut Context::from_waker(&wo)).is_ready());
    drop(other);
    epilogue_timer(&t, 3);
}

fn event_set_vs_drop() {
    let e = Arc::new(GenericManualResetEvent::<LoomRaw>::new(false));
    let _ = e.is_set();
    let er: &'static GenericManualResetEvent<LoomRaw> = unsafe { &*(&*e as *const GenericManualResetEvent<LoomRaw>) };
    let mut other = Box::pin(er.wait());
    let mut f = PoisonBox::new(er.wait());
    let (w, _c) = counting_waker();
    let (wo, co) = counting_waker();
    assert!(other.as_mut().poll(&mut Context::from_waker(&wo)).is_pending());
    assert!(f.pin().poll(&mut Context::from_waker(&w)).is_pending());
    let e1 = e.clone();
    let h = spawn(move || e1.set());
    f.kill();
    h.join().unwrap();
    assert!(co.load(Ordering::SeqCst) > 0, "C14: set() did not wake a pending waiter");
    assert!(other.as_mut().poll(&mut Context::from_waker(&wo)).is_ready());
    drop(other);
    epilogue_event(&e);
}

fn sem_release_vs_drop() {
    let s = Arc::new(GenericSemaphore::<LoomRaw>::new(true, 0));
    let _ = s.permits();
    let sr: &'static GenericSemaphore<LoomRaw> = unsafe { &*(&*s as *const GenericSemaphore<LoomRaw>) };
    let mut f = PoisonBox::new(sr.acquire(1));
    let mut other = Box::pin(sr.acquire(1));
    let (w, _c) = counting_waker();
    let (wo, co) = counting_waker();
    assert!(f.pin().poll(&mut Context::from_waker(&w)).is_pending());
    assert!(other.as_mut().poll(&mut Context::from_waker(&wo)).is_pending());
    let s1 = s.clone();
    let h = spawn(move || s1.release(1));
    f.kill();
    h.join().unwrap();
    assert!(co.load(Ordering::SeqCst) > 0, "C06: a permit is free and the remaining request fits, but it has not been woken");
    match other.as_mut().poll(&mut Context::from_waker(&wo)) {
        Poll::Ready(r) => drop(r),
        Poll::Pending => panic!("C06: the permit is free but the woken acquire future stays pending"),
    }
    drop(other);
    epilogue_sem(&s, 1);
}

fn mutex_unlock_vs_drop() {
    let m = Arc::new(GenericMutex::<LoomRaw, Tracked>::new(Tracked::new(), true));
    let _ = m.is_locked();
    let mr: &'static GenericMutex<LoomRaw, Tracked> = unsafe { &*(&*m as *const GenericMutex<LoomRaw, Tracked>) };
    let g = mr.try_lock().unwrap();
    let mut f = PoisonBox::new(mr.lock());
    let mut other = Box::pin(mr.lock());
    let (w, _c) = counting_waker();
    let (wo, co) = counting_waker();
    assert!(f.pin().poll(&mut Context::from_waker(&w)).is_pending());
    assert!(other.as_mut().poll(&mut Context::from_waker(&wo)).is_pending());
    let gb = SendBox(Box::new(g));
    let keep = m.clone();
    let h = spawn(move || {
        let g = gb;
        drop(g);
        let _ = &keep;
    });
    f.kill();
    h.join().unwrap();
    assert!(co.load(Ordering::SeqCst) > 0, "C03: the mutex is free and a lock future is pending, but it has not been woken");
    match other.as_mut().poll(&mut Context::from_waker(&wo)) {
        Poll::Ready(g) => drop(g),
        Poll::Pending => panic!("C03: the mutex is free but the woken lock future stays pending"),
    }
    drop(other);
    epilogue_mutex(&m);
}

fn mpmc_send_vs_drop_recv() {
    let (tx, rx) = sh::generic_channel::<LoomRaw, u32, FixedHeapBuf<u32>>(1);
    let _ = rx.try_receive();
    let mut f = PoisonBox::new(rx.receive());
    let mut other = Box::pin(rx.receive());
    let (w, _c) = counting_waker();
    let (wo, co) = counting_waker();
    assert!(f.pin().poll(&mut Context::from_waker(&w)).is_pending());
    assert!(other.as_mut().poll(&mut Context::from_waker(&wo)).is_pending());
    let tx1 = tx.clone();
    let h = spawn(move || {
        let _ = tx1.try_send(5);
    });
    f.kill();
    h.join().unwrap();
    assert!(co.load(Ordering::SeqCst) > 0, "C10: a value is buffered and a receiver is pending, but it has not been woken");
    assert_eq!(other.as_mut().poll(&mut Context::from_waker(&wo)), Poll::Ready(Some(5)), "C10: the woken receiver does not get the value");
    drop(other);
    drop(tx);
}

/// the first poll of a wait future races with set(): it completes, or has been woken
fn event_set_vs_first_poll() {
    let e = Arc::new(GenericManualResetEvent::<LoomRaw>::new(false));
    let _ = e.is_set();
    let er: &'static GenericManualResetEvent<LoomRaw> = unsafe { &*(&*e as *const GenericManualResetEvent<LoomRaw>) };
    let mut f = Box::pin(er.wait());
    let (w, c) = counting_waker();
    let e1 = e.clone();
    let h = spawn(move || e1.set());
    let ready = f.as_mut().poll(&mut Context::from_waker(&w)).is_ready();
    h.join().unwrap();
    if !ready {
        assert!(c.load(Ordering::SeqCst) > 0, "C14: set() was called while the waiter was registering, and the waiter was neither completed nor woken");
        assert!(f.as_mut().poll(&mut Context::from_waker(&w)).is_ready(), "C14: wait future pending although the event is set");
    }
    drop(f);
    epilogue_event(&e);
}

/// fair mutex: a new lock future is polled for the first time on one thread while the guard is
/// dropped on another; an older future is waiting (and is not polled by anybody), so the newcomer
/// must not get the lock
fn mutex_fair_newcomer() {
    let m = Arc::new(GenericMutex::<LoomRaw, Tracked>::new(Tracked::new(), true));
    let _ = m.is_locked();
    let mr: &'static GenericMutex<LoomRaw, Tracked> = unsafe { &*(&*m as *const GenericMutex<LoomRaw, Tracked>) };
    let g = mr.try_lock().unwrap();
    let mut older = Box::pin(mr.lock());
    let (wo, co) = counting_waker();
    assert!(older.as_mut().poll(&mut Context::from_waker(&wo)).is_pending());
    let keep = m.clone();
    let h = spawn(move || {
        let mr: &'static GenericMutex<LoomRaw, Tracked> = unsafe { &*(&*keep as *const GenericMutex<LoomRaw, Tracked>) };
        let mut newer = Box::pin(mr.lock());
        let (wn, _cn) = counting_waker();
        let overtook = match newer.as_mut().poll(&mut Context::from_waker(&wn)) {
            Poll::Ready(g) => {
                drop(g);
                true
            }
            Poll::Pending => false,
        };
        drop(newer);
        (overtook, keep)
    });
    drop(g);
    let (overtook, _keep) = h.join().unwrap();
    assert!(!overtook, "C04: a lock future that started waiting later obtained the fair mutex while an earlier one was still pending");
    assert!(co.load(Ordering::SeqCst) > 0, "C03: the mutex is free and the oldest lock future is pending, but it has not been woken");
    match older.as_mut().poll(&mut Context::from_waker(&wo)) {
        Poll::Ready(g) => drop(g),
        Poll::Pending => panic!("C03: the mutex is free but the woken lock future stays pending"),
    }
    drop(older);
    epilogue_mutex(&m);
}

/// no guard exists at any time: is_locked() is false, whatever another thread is doing inside
/// the mutex's critical sections
fn mutex_is_locked_contended() {
    let m = Arc::new(GenericMutex::<LoomRaw, Tracked>::new(Tracked::new(), false));
    let _ = m.is_locked();
    let m1 = m.clone();
    let h = spawn(move || {
        let f = m1.lock();
        drop(f);
        let _ = m1.is_locked();
        let mut f2 = Box::pin(m1.lock());
        // (never polled to completion by this thread: no guard is created)
        let _ = &mut f2;
        drop(f2);
    });
    assert!(!m.is_locked(), "C02: is_locked() is true although no guard has ever existed");
    assert!(!m.is_locked(), "C02: is_locked() is true although no guard has ever existed");
    h.join().unwrap();
    epilogue_mutex(&m);
}

/// One thread drops its guard while another one calls try_lock(): whoever holds a guard must see
/// is_locked() == true for as long as it holds it (a lock-free mirror of the flag that the guard's
/// Drop clears after leaving the critical section would be cleared under the new owner).
fn mutex_is_locked_handover_v(fair: bool) {
    let m = Arc::new(GenericMutex::<LoomRaw, Tracked>::new(Tracked::new(), fair));
    let _ = m.is_locked();
    let g = m.try_lock().expect("C02: try_lock() on a free mutex failed");
    assert!(m.is_locked(), "C02: is_locked() is false while a guard is alive");
    let m1 = m.clone();
    let h = spawn(move || {
        if let Some(g2) = m1.try_lock() {
            assert!(m1.is_locked(), "C02: is_locked() is false while the guard returned by try_lock() is alive");
            assert!(m1.try_lock().is_none(), "C02: a second guard was handed out while one is alive");
            assert!(m1.is_locked(), "C02: is_locked() is false while the guard returned by try_lock() is alive");
            drop(g2);
        }
    });
    drop(g);
    h.join().unwrap();
    assert!(!m.is_locked(), "C02: is_locked() is true although every guard has been dropped");
    epilogue_mutex(&m);
}
fn mutex_is_locked_handover_fair() {
    mutex_is_locked_handover_v(true)
}
fn mutex_is_locked_handover_unfair() {
    mutex_is_locked_handover_v(false)
}

/// Debug formatting of the borrowed channel and of the shared handles while another thread pushes
/// into a `Send + !Sync` user buffer under the lock
fn mpmc_debug_vs_push_exclusive() {
    let c = Arc::new(futures_intrusive::channel::GenericChannel::<LoomRaw, u32, ProbeBuf>::with_capacity(2));
    let _ = c.try_receive();
    let c1 = c.clone();
    let h = spawn(move || {
        let _ = c1.try_send(1);
        let _ = c1.try_send(2);
    });
    let text = format!("{:?}", c);
    assert!(!text.is_empty());
    let _ = format!("{:?}", c);
    h.join().unwrap();
    let (tx, rx) = sh::generic_channel::<LoomRaw, u32, ProbeBuf>(2);
    let _ = rx.try_receive();
    let tx1 = tx.clone();
    let h = spawn(move || {
        let _ = tx1.try_send(1);
    });
    let _ = format!("{:?} {:?}", tx, rx);
    h.join().unwrap();
}

// ------------------------------------------------ many parked waiters under threads
// Mass wake-ups that are split into several critical sections once more than some number of
// futures are parked (batches of 16 / 32 / 64) behave like the original below the threshold and
// for every single-threaded history. 70 parked futures (passive: polled once by the main thread)
// put every such threshold up to 64 behind us; the racing thread then does what the split
// makes visible.

const MANY: usize = 70;

/// set() races with reset() followed by the registration of a new waiter: a waiter that starts
/// waiting after the last reset waits for the next set
fn event_many_set_vs_reset() {
    let e = Arc::new(GenericManualResetEvent::<LoomRaw>::new(false));
    let _ = e.is_set();
    let er: &'static GenericManualResetEvent<LoomRaw> = unsafe { &*(&*e as *const GenericManualResetEvent<LoomRaw>) };
    let (w, c) = plain_waker();
    let mut parked: Vec<_> = (0..MANY).map(|_| Box::pin(er.wait())).collect();
    for f in parked.iter_mut() {
        assert!(f.as_mut().poll(&mut Context::from_waker(&w)).is_pending());
    }
    let e1 = e.clone();
    let h1 = spawn(move || e1.set());
    let e2 = e.clone();
    let h2 = spawn(move || {
        e2.reset();
        let er: &'static GenericManualResetEvent<LoomRaw> = unsafe { &*(&*e2 as *const GenericManualResetEvent<LoomRaw>) };
        let mut g = Box::pin(er.wait());
        let (wg, cg) = plain_waker();
        let ready = g.as_mut().poll(&mut Context::from_waker(&wg)).is_ready();
        (SendBox(Box::new(g)), wg, cg, ready, e2)
    });
    h1.join().unwrap();
    let (g, wg, cg, ready_then, _keep) = h2.join().unwrap();
    let mut g = *g.0;
    assert!(c.load(Ordering::SeqCst) >= MANY, "C14: set() did not wake every waiter that was parked before it ({} of {})", c.load(Ordering::SeqCst), MANY);
    for f in parked.iter_mut() {
        assert!(f.as_mut().poll(&mut Context::from_waker(&w)).is_ready(), "C14: a waiter parked before set() stays pending");
    }
    if e.is_set() {
        // the set came last: the late waiter completed at once or has been woken
        assert!(ready_then || cg.load(Ordering::SeqCst) > 0, "C14: set() after the registration of a waiter did not wake it");
        assert!(ready_then || g.as_mut().poll(&mut Context::from_waker(&wg)).is_ready(), "C14: wait future pending although the event is set");
    } else {
        // the reset came last, and the late waiter started waiting after it
        assert!(!ready_then, "C14: a waiter that started waiting after the last reset() completed without a set()");
        assert!(g.as_mut().poll(&mut Context::from_waker(&wg)).is_pending(), "C14: a waiter that started waiting after the last reset() completed although the event was not set again");
    }
    drop(g);
    drop(parked);
    epilogue_event(&e);
}

/// check_expirations() with many due timers races with a thread that abandons one parked timer
/// and registers a new, later one
fn timer_many_vs_abandon() {
    CLK.0.store(0, Ordering::SeqCst);
    let t = Arc::new(GenericTimerService::<LoomRaw>::new(&CLK));
    let _ = t.next_expiration();
    let tr: &'static GenericTimerService<LoomRaw> = unsafe { &*(&*t as *const GenericTimerService<LoomRaw>) };
    let (w, c) = plain_waker();
    let mut parked: Vec<_> = (0..MANY).map(|_| Box::pin(Timer::deadline(tr, 1))).collect();
    for f in parked.iter_mut() {
        assert!(f.as_mut().poll(&mut Context::from_waker(&w)).is_pending());
    }
    let victim = SendBox(Box::new(parked.remove(MANY / 2)));
    // two timers that are not due yet: they have to survive whatever the race does to the heap
    let (ws, cs) = plain_waker();
    let mut survivors: Vec<_> = (0..2).map(|_| Box::pin(Timer::deadline(tr, 7))).collect();
    for f in survivors.iter_mut() {
        assert!(f.as_mut().poll(&mut Context::from_waker(&ws)).is_pending());
    }
    CLK.0.store(1, Ordering::SeqCst);
    let t1 = t.clone();
    let h1 = spawn(move || t1.check_expirations());
    let t2 = t.clone();
    let h2 = spawn(move || {
        drop(victim);
        let tr: &'static GenericTimerService<LoomRaw> = unsafe { &*(&*t2 as *const GenericTimerService<LoomRaw>) };
        let mut late = Box::pin(Timer::deadline(tr, 5));
        let (wl, cl) = plain_waker();
        let ready = late.as_mut().poll(&mut Context::from_waker(&wl)).is_ready();
        (SendBox(Box::new(late)), wl, cl, ready, t2)
    });
    h1.join().unwrap();
    let (late, wl, cl, ready_then, _keep) = h2.join().unwrap();
    let mut late = *late.0;
    assert!(c.load(Ordering::SeqCst) >= MANY - 1, "C15: check_expirations() did not wake every due timer ({} of {})", c.load(Ordering::SeqCst), MANY - 1);
    for f in parked.iter_mut() {
        assert!(f.as_mut().poll(&mut Context::from_waker(&w)).is_ready(), "C15: a due timer stays pending after check_expirations()");
    }
    assert!(!ready_then && cl.load(Ordering::SeqCst) == 0, "C15: a timer with deadline 5 completed or was woken at clock 1");
    assert_eq!(t.next_expiration(), Some(5), "C15: next_expiration() is not the deadline of the only registered timer");
    CLK.0.store(5, Ordering::SeqCst);
    t.check_expirations();
    assert!(cl.load(Ordering::SeqCst) > 0, "C15: due timer not woken");
    assert!(late.as_mut().poll(&mut Context::from_waker(&wl)).is_ready(), "C15: due timer future does not complete");
    drop(late);
    drop(parked);
    assert_eq!(cs.load(Ordering::SeqCst), 0, "C15: a timer with deadline 7 was woken at clock 5");
    assert_eq!(t.next_expiration(), Some(7), "C15/C01: registered timers that are not due have been lost from the heap");
    CLK.0.store(7, Ordering::SeqCst);
    t.check_expirations();
    assert!(cs.load(Ordering::SeqCst) >= 2, "C15: due timers not woken");
    for f in survivors.iter_mut() {
        assert!(f.as_mut().poll(&mut Context::from_waker(&ws)).is_ready(), "C15: due timer future does not complete");
    }
    drop(survivors);
    epilogue_timer(&t, 7);
}

// ------------------------------------------------ no allocation inside library calls, under threads
// Two threads perform a mass wake-up on the same primitive with MANY parked futures at the same
// time; every library call is armed. A scratch buffer that one thread has taken out of the shared
// state while it works outside the lock (so that the other thread finds a placeholder and has to
// allocate) is invisible to every single-threaded history.

fn alloc_reset() {
    ALLOCS.store(0, Ordering::Relaxed);
    FREES.store(0, Ordering::Relaxed);
}
fn alloc_check(what: &str) {
    let (a, f) = (ALLOCS.load(Ordering::Relaxed), FREES.load(Ordering::Relaxed));
    assert!(a + f == 0, "C18: {} allocations / {} frees inside {}", a, f, what);
}

fn alloc_race_timer() {
    CLK.0.store(0, Ordering::SeqCst);
    let t = Arc::new(GenericTimerService::<LoomRaw>::new(&CLK));
    let _ = t.next_expiration();
    let tr: &'static GenericTimerService<LoomRaw> = unsafe { &*(&*t as *const GenericTimerService<LoomRaw>) };
    let (w, c) = plain_waker();
    let mut parked: Vec<_> = (0..MANY).map(|i| Box::pin(Timer::deadline(tr, 1 + (i % 2) as u64))).collect();
    for f in parked.iter_mut() {
        assert!(f.as_mut().poll(&mut Context::from_waker(&w)).is_pending());
    }
    CLK.0.store(2, Ordering::SeqCst);
    alloc_reset();
    let hs: Vec<_> = (0..2)
        .map(|_| {
            let t = t.clone();
            spawn(move || armed(|| t.check_expirations()))
        })
        .collect();
    for h in hs {
        h.join().unwrap();
    }
    alloc_check("concurrent check_expirations() calls");
    assert!(c.load(Ordering::SeqCst) >= MANY, "C15: not every due timer was woken");
    drop(parked);
    epilogue_timer(&t, 2);
}

fn alloc_race_event() {
    let e = Arc::new(GenericManualResetEvent::<LoomRaw>::new(false));
    let _ = e.is_set();
    let er: &'static GenericManualResetEvent<LoomRaw> = unsafe { &*(&*e as *const GenericManualResetEvent<LoomRaw>) };
    let (w, c) = plain_waker();
    let mut parked: Vec<_> = (0..MANY).map(|_| Box::pin(er.wait())).collect();
    for f in parked.iter_mut() {
        assert!(f.as_mut().poll(&mut Context::from_waker(&w)).is_pending());
    }
    alloc_reset();
    let hs: Vec<_> = (0..2)
        .map(|_| {
            let e = e.clone();
            spawn(move || armed(|| e.set()))
        })
        .collect();
    for h in hs {
        h.join().unwrap();
    }
    alloc_check("concurrent set() calls");
    assert!(c.load(Ordering::SeqCst) >= MANY, "C14: set() did not wake every parked waiter");
    drop(parked);
    epilogue_event(&e);
}

fn alloc_race_sem() {
    let s = Arc::new(GenericSemaphore::<LoomRaw>::new(false, 0));
    let _ = s.permits();
    let sr: &'static GenericSemaphore<LoomRaw> = unsafe { &*(&*s as *const GenericSemaphore<LoomRaw>) };
    let (w, c) = plain_waker();
    let mut parked: Vec<_> = (0..MANY).map(|_| Box::pin(sr.acquire(1))).collect();
    for f in parked.iter_mut() {
        assert!(f.as_mut().poll(&mut Context::from_waker(&w)).is_pending());
    }
    alloc_reset();
    let hs: Vec<_> = (0..2)
        .map(|_| {
            let s = s.clone();
            spawn(move || armed(|| s.release(MANY / 2)))
        })
        .collect();
    for h in hs {
        h.join().unwrap();
    }
    alloc_check("concurrent release() calls");
    assert!(c.load(Ordering::SeqCst) >= 1, "C06: release() did not wake anybody");
    for f in parked.iter_mut() {
        match f.as_mut().poll(&mut Context::from_waker(&w)) {
            Poll::Ready(mut r) => {
                r.disarm();
            }
            Poll::Pending => panic!("C06: {} permits were released for {} requests of 1, but a request stays pending", MANY, MANY),
        }
    }
    drop(parked);
    epilogue_sem(&s, 0);
}

// ------------------------------------------------ sequential epilogues
// After all threads of a scenario have been joined, the primitive is put through one plain
// single-threaded cycle whose outcome the property fixes completely. A lock-free mirror, cached
// flag or counter that a racy schedule left out of step with the locked state shows up here even
// if nothing observable went wrong during the race itself.

fn epilogue_mutex<T>(m: &GenericMutex<LoomRaw, T>) {
    assert!(!m.is_locked(), "C02: is_locked() is true although no guard is alive");
    let g = m.try_lock().expect("C02/C03: mutex not lockable after all tasks finished");
    assert!(m.is_locked(), "C02: is_locked() is false while a guard is alive");
    assert!(m.try_lock().is_none(), "C02: second guard while one is alive");
    let mut f = Box::pin(m.lock());
    let (w, c) = counting_waker();
    assert!(f.as_mut().poll(&mut Context::from_waker(&w)).is_pending(), "C02: lock future completed while a guard is alive");
    drop(g);
    assert!(c.load(Ordering::SeqCst) > 0, "C03: unlock did not wake the only pending lock future");
    match f.as_mut().poll(&mut Context::from_waker(&w)) {
        Poll::Ready(g2) => drop(g2),
        Poll::Pending => panic!("C03: the mutex is free but the woken lock future stays pending"),
    }
    drop(f);
    assert!(!m.is_locked(), "C02: is_locked() is true although no guard is alive");
}

fn epilogue_sem(s: &GenericSemaphore<LoomRaw>, expected: usize) {
    assert_eq!(s.permits(), expected, "C05: permits() differs from initial + released - outstanding");
    let mut f = Box::pin(s.acquire(expected + 1));
    let (w, c) = counting_waker();
    assert!(f.as_mut().poll(&mut Context::from_waker(&w)).is_pending(), "C05: acquire of more permits than exist completed");
    s.release(1);
    assert!(c.load(Ordering::SeqCst) > 0, "C06: release() made the head request fit but did not wake it");
    match f.as_mut().poll(&mut Context::from_waker(&w)) {
        Poll::Ready(r) => {
            assert_eq!(s.permits(), 0, "C05: permits() wrong while all permits are held");
            drop(r);
        }
        Poll::Pending => panic!("C06: the request fits but the woken acquire future stays pending"),
    }
    drop(f);
    assert_eq!(s.permits(), expected + 1, "C05: permits not returned by the releaser");
}

fn epilogue_event(e: &GenericManualResetEvent<LoomRaw>) {
    e.reset();
    assert!(!e.is_set(), "C14: is_set() is true after reset()");
    let mut fut = Box::pin(e.wait());
    let (w1, c1) = counting_waker();
    assert!(fut.as_mut().poll(&mut Context::from_waker(&w1)).is_pending(), "C14: wait future completes although the event is reset");
    e.set();
    assert!(e.is_set(), "C14: is_set() is false after set()");
    assert!(c1.load(Ordering::SeqCst) > 0, "C14: set() did not wake the pending waiter");
    assert!(fut.as_mut().poll(&mut Context::from_waker(&w1)).is_ready(), "C14: wait future pending although the event is set");
    drop(fut);
}

/// the heap must be empty and the clock at `now`
fn epilogue_timer(t: &GenericTimerService<LoomRaw>, now: u64) {
    assert_eq!(t.next_expiration(), None, "C15: next_expiration() reports a deadline although no timer is registered");
    let mut f = Box::pin(Timer::deadline(t, now + 5));
    let (w, c) = counting_waker();
    assert!(f.as_mut().poll(&mut Context::from_waker(&w)).is_pending(), "C15: timer completed early");
    assert_eq!(t.next_expiration(), Some(now + 5), "C15: next_expiration() is not the smallest registered deadline");
    t.check_expirations();
    assert_eq!(c.load(Ordering::SeqCst), 0, "C15: check_expirations() woke a timer that is not due");
    CLK.0.store(now + 5, Ordering::SeqCst);
    t.check_expirations();
    assert!(c.load(Ordering::SeqCst) > 0, "C15: check_expirations() did not wake a due timer");
    assert!(f.as_mut().poll(&mut Context::from_waker(&w)).is_ready(), "C15: due timer future does not complete");
    drop(f);
    assert_eq!(t.next_expiration(), None, "C15: next_expiration() reports a deadline although no timer is registered");
}

/// the channel must be open
fn epilogue_state(c: &GenericStateBroadcastChannel<LoomRaw, u32>, v: u32) {
    let id = c.try_receive(StateId::new()).map(|x| x.0).unwrap_or_else(StateId::new);
    let mut f = Box::pin(c.receive(id));
    let (w, cnt) = counting_waker();
    assert!(f.as_mut().poll(&mut Context::from_waker(&w)).is_pending(), "C13: receive completed although nothing newer was published");
    c.send(v).expect("C13: send on an open channel failed");
    assert!(cnt.load(Ordering::SeqCst) > 0, "C13: send() did not wake the pending receiver");
    match f.as_mut().poll(&mut Context::from_waker(&w)) {
        Poll::Ready(Some((nid, x))) => {
            assert!(nid > id, "C13: id not increasing");
            assert_eq!(x, v, "C13: receiver did not get the latest state");
        }
        _ => panic!("C13: pending receiver did not get the published state"),
    }
}

// ---- scheduling points for the crate's handle counters (verif::sync::AtomicUsize hook)
// The loom atomics standing in for the counters are created by the main thread at the start of
// every execution (a loom object created lazily inside a spawned thread has no happens-before edge
// to its users in sibling threads, which loom reports as a causality violation of its own); a
// counter address is bound to the next free pool entry at its first operation.
const HOOK_POOL: usize = 12;
static HOOK_ON: std::sync::atomic::AtomicBool = std::sync::atomic::AtomicBool::new(false);
static REG: std::sync::Mutex<(Vec<usize>, Vec<std::sync::Arc<loom::sync::atomic::AtomicUsize>>)> = std::sync::Mutex::new((Vec::new(), Vec::new()));
fn sched_hook(addr: usize) {
    let a = {
        let mut r = REG.lock().unwrap();
        let idx = match r.0.iter().position(|e| *e == addr) {
            Some(i) => i,
            None => {
                r.0.push(addr);
                r.0.len() - 1
            }
        };
        assert!(idx < r.1.len(), "MACHINERY: more than {} distinct counters in one execution", HOOK_POOL);
        r.1[idx].clone()
    };
    // one RMW on a per-counter loom atomic: counter operations of different threads become
    // dependent scheduling points (the std lock above is released before loom may switch)
    unarmed(|| {
        a.fetch_add(1, Ordering::SeqCst);
    });
}
fn reset_hook_registry() {
    if !HOOK_ON.load(Ordering::Relaxed) {
        return;
    }
    let mut r = REG.lock().unwrap();
    r.0.clear();
    r.1.clear();
    for _ in 0..HOOK_POOL {
        r.1.push(std::sync::Arc::new(loom::sync::atomic::AtomicUsize::new(0)));
    }
}


// ------------------------------------------------------------------ mutex

fn mutex_counter(fair: bool) {
    let m = Arc::new(GenericMutex::<LoomRaw, Tracked>::new(Tracked::new(), fair));
    let _ = m.is_locked();
    let hs: Vec<_> = (0..2)
        .map(|_| {
            let m = m.clone();
            spawn(move || {
                loom::future::block_on(async {
                    let g = m.lock().await;
                    g.incr();
                });
            })
        })
        .collect();
    loom::future::block_on(async {
        let g = m.lock().await;
        g.incr();
    });
    for h in hs {
        h.join().unwrap();
    }
    assert!(!m.is_locked(), "C02: mutex still locked after all guards were dropped");
    let g = m.try_lock().expect("C02/C03: mutex not lockable after all tasks finished");
    assert_eq!(3, g.get(), "C02: lost update under the guard");
    drop(g);
    epilogue_mutex(&m);
}
fn mutex_counter_fair() {
    mutex_counter(true)
}
fn mutex_counter_unfair() {
    mutex_counter(false)
}

/// one task locks twice, one task abandons its lock future after one poll, one try_lock barger
fn mutex_abandon(fair: bool) {
    let m = Arc::new(GenericMutex::<LoomRaw, Tracked>::new(Tracked::new(), fair));
    let _ = m.is_locked();
    let m1 = m.clone();
    let h1 = spawn(move || {
        // abandoning task: if it gets the lock at once it uses it
        if let Some(g) = poll_once_and_drop(m1.lock()) {
            g.incr();
        }
    });
    let m2 = m.clone();
    let h2 = spawn(move || {
        loom::future::block_on(async {
            let g = m2.lock().await;
            g.incr();
        });
    });
    loom::future::block_on(async {
        let g = m.lock().await;
        g.incr();
    });
    if let Some(g) = m.try_lock() {
        g.incr();
    }
    h1.join().unwrap();
    h2.join().unwrap();
    let g = m.try_lock().expect("C03: mutex not lockable after all tasks finished");
    assert!(g.get() >= 2);
    drop(g);
    epilogue_mutex(&m);
}
/// the holder unlocks while one waiter awaits, one waiter abandons and one more waiter awaits
fn mutex_cancel_in_queue(fair: bool) {
    let m = Arc::new(GenericMutex::<LoomRaw, Tracked>::new(Tracked::new(), fair));
    let _ = m.is_locked();
    let g = m.try_lock().expect("fresh mutex must be lockable");
    let m1 = m.clone();
    let h1 = spawn(move || {
        loom::future::block_on(async {
            let g = m1.lock().await;
            g.incr();
        });
    });
    let m2 = m.clone();
    let h2 = spawn(move || {
        if let Some(g) = poll_once_and_drop(m2.lock()) {
            g.incr();
        }
    });
    let m3 = m.clone();
    let h3 = spawn(move || {
        loom::future::block_on(async {
            let g = m3.lock().await;
            g.incr();
        });
    });
    g.incr();
    drop(g);
    h1.join().unwrap();
    h2.join().unwrap();
    h3.join().unwrap();
    let g = m.try_lock().expect("C03: mutex not lockable after all tasks finished");
    assert!(g.get() >= 3, "C02: lost update under the guard");
    drop(g);
    epilogue_mutex(&m);
}
fn mutex_cancel_in_queue_fair() {
    mutex_cancel_in_queue(true)
}
fn mutex_cancel_in_queue_unfair() {
    mutex_cancel_in_queue(false)
}

fn mutex_abandon_fair() {
    mutex_abandon(true)
}
fn mutex_abandon_unfair() {
    mutex_abandon(false)
}

// -------------------------------------------------------------- semaphore

/// three tasks acquire 2/1/1 of 2 permits with auto-release
fn sem_mixed(fair: bool) {
    let s = Arc::new(GenericSemaphore::<LoomRaw>::new(fair, 2));
    let _ = s.permits();
    let hs: Vec<_> = [2usize, 1]
        .iter()
        .map(|&n| {
            let s = s.clone();
            spawn(move || {
                loom::future::block_on(async {
                    let _r = s.acquire(n).await;
                });
            })
        })
        .collect();
    loom::future::block_on(async {
        let _r = s.acquire(1).await;
    });
    for h in hs {
        h.join().unwrap();
    }
    assert_eq!(2, s.permits(), "C05: permits not conserved");
    epilogue_sem(&s, 2);
}
fn sem_mixed_fair() {
    sem_mixed(true)
}
fn sem_mixed_unfair() {
    sem_mixed(false)
}

/// acquire(3) with timeout || acquire(1) || release(1)   (defect D1a deadlocks here)
fn sem_timeout(fair: bool) {
    let s = Arc::new(GenericSemaphore::<LoomRaw>::new(fair, 0));
    let _ = s.permits();
    let s1 = s.clone();
    let h1 = spawn(move || {
        if let Some(mut r) = poll_once_and_drop(s1.acquire(3)) {
            r.disarm();
            panic!("C05: acquire(3) completed with at most 1 permit available");
        }
    });
    let s2 = s.clone();
    let h2 = spawn(move || {
        loom::future::block_on(async {
            let mut r = s2.acquire(1).await;
            r.disarm();
        });
    });
    s.release(1);
    h1.join().unwrap();
    h2.join().unwrap();
    assert_eq!(0, s.permits(), "C05: permits not conserved");
    epilogue_sem(&s, 0);
}
fn sem_timeout_fair() {
    sem_timeout(true)
}
fn sem_timeout_unfair() {
    sem_timeout(false)
}

/// unfair: acquire(2) || acquire(1) || release(2) + try_acquire(1) thief   (defect D1b)
fn sem_thief() {
    let s = Arc::new(GenericSemaphore::<LoomRaw>::new(false, 0));
    let _ = s.permits();
    let s1 = s.clone();
    let h1 = spawn(move || {
        loom::future::block_on(async {
            let _r = s1.acquire(2).await;
        });
    });
    let s2 = s.clone();
    let h2 = spawn(move || {
        loom::future::block_on(async {
            let _r = s2.acquire(1).await;
        });
    });
    s.release(2);
    if let Some(r) = s.try_acquire(1) {
        drop(r);
    }
    h1.join().unwrap();
    h2.join().unwrap();
    assert_eq!(2, s.permits(), "C05: permits not conserved");
    epilogue_sem(&s, 2);
}

/// nobody waits: permit conservation under concurrent try_acquire / releaser drop
fn sem_try_conserve() {
    let s = Arc::new(GenericSemaphore::<LoomRaw>::new(false, 2));
    let _ = s.permits();
    let hs: Vec<_> = (0..2)
        .map(|_| {
            let s = s.clone();
            spawn(move || {
                if let Some(r) = s.try_acquire(1) {
                    drop(r);
                }
            })
        })
        .collect();
    if let Some(r) = s.try_acquire(2) {
        drop(r);
    }
    for h in hs {
        h.join().unwrap();
    }
    assert_eq!(2, s.permits(), "C05: permits not conserved");
    epilogue_sem(&s, 2);
}

fn sem_shared_mixed() {
    let s = GenericSharedSemaphore::<LoomRaw>::new(true, 1);
    let _ = s.permits();
    let hs: Vec<_> = [1usize, 1]
        .iter()
        .map(|&n| {
            let s = s.clone();
            spawn(move || {
                loom::future::block_on(async {
                    let _r = s.acquire(n).await;
                });
            })
        })
        .collect();
    if let Some(r) = poll_once_and_drop(s.acquire(1)) {
        drop(r);
    }
    for h in hs {
        h.join().unwrap();
    }
    assert_eq!(1, s.permits(), "C05: permits not conserved");
}

// ------------------------------------------------------------------ event

fn event_set_reset_set() {
    let e = Arc::new(GenericManualResetEvent::<LoomRaw>::new(false));
    let _ = e.is_set();
    let e1 = e.clone();
    let h1 = spawn(move || {
        loom::future::block_on(async {
            e1.wait().await;
        });
    });
    let e2 = e.clone();
    let h2 = spawn(move || {
        let _ = poll_once_and_drop(e2.wait());
    });
    e.set();
    e.reset();
    e.set();
    h1.join().unwrap();
    h2.join().unwrap();
    assert!(e.is_set());
    epilogue_event(&e);
}

/// set() races with a waiter that abandons its parked wait future (two waiters parked, so that the
/// abandoned node may be the head or an inner node of whatever list set() is walking)
fn event_set_vs_abandon() {
    let e = Arc::new(GenericManualResetEvent::<LoomRaw>::new(false));
    let _ = e.is_set();
    let er: &'static GenericManualResetEvent<LoomRaw> = unsafe { &*(&*e as *const GenericManualResetEvent<LoomRaw>) };
    let mut f1 = Box::pin(er.wait());
    let mut f2 = Box::pin(er.wait());
    let (w1, _c1) = counting_waker();
    let (w2, c2) = counting_waker();
    assert!(f1.as_mut().poll(&mut Context::from_waker(&w1)).is_pending());
    assert!(f2.as_mut().poll(&mut Context::from_waker(&w2)).is_pending());
    let keep = e.clone();
    let h1 = spawn(move || {
        drop(f1);
        let _ = &keep;
    });
    let e2 = e.clone();
    let h2 = spawn(move || e2.set());
    h1.join().unwrap();
    h2.join().unwrap();
    assert!(c2.load(Ordering::SeqCst) > 0, "C14: set() did not wake a pending waiter");
    assert!(f2.as_mut().poll(&mut Context::from_waker(&w2)).is_ready(), "C14: wait future pending although the event is set");
    drop(f2);
}

/// the same with the abandoning thread dropping the *second* (tail) waiter
fn event_set_vs_abandon_tail() {
    let e = Arc::new(GenericManualResetEvent::<LoomRaw>::new(false));
    let _ = e.is_set();
    let er: &'static GenericManualResetEvent<LoomRaw> = unsafe { &*(&*e as *const GenericManualResetEvent<LoomRaw>) };
    let mut f1 = Box::pin(er.wait());
    let mut f2 = Box::pin(er.wait());
    let (w1, c1) = counting_waker();
    let (w2, _c2) = counting_waker();
    assert!(f1.as_mut().poll(&mut Context::from_waker(&w1)).is_pending());
    assert!(f2.as_mut().poll(&mut Context::from_waker(&w2)).is_pending());
    let keep = e.clone();
    let h1 = spawn(move || {
        drop(f2);
        let _ = &keep;
    });
    let e2 = e.clone();
    let h2 = spawn(move || e2.set());
    h1.join().unwrap();
    h2.join().unwrap();
    assert!(c1.load(Ordering::SeqCst) > 0, "C14: set() did not wake a pending waiter");
    assert!(f1.as_mut().poll(&mut Context::from_waker(&w1)).is_ready(), "C14: wait future pending although the event is set");
    drop(f1);
}

fn event_two_waiters() {
    let e = Arc::new(GenericManualResetEvent::<LoomRaw>::new(false));
    let _ = e.is_set();
    let hs: Vec<_> = (0..2)
        .map(|_| {
            let e = e.clone();
            spawn(move || {
                loom::future::block_on(async {
                    e.wait().await;
                });
            })
        })
        .collect();
    e.set();
    e.reset();
    // a waiter that starts waiting after the reset waits for the next set
    e.set();
    for h in hs {
        h.join().unwrap();
    }
    assert!(e.is_set());
    epilogue_event(&e);
}

/// a waiter is registered; set() and reset() race on two threads: the waiter was pending while
/// the event was set, so it must have been woken and must complete at its next poll
fn event_set_vs_reset() {
    let e = Arc::new(GenericManualResetEvent::<LoomRaw>::new(false));
    let _ = e.is_set();
    let er: &'static GenericManualResetEvent<LoomRaw> = unsafe { &*(&*e as *const GenericManualResetEvent<LoomRaw>) };
    let mut fut = Box::pin(er.wait());
    let (w1, c1) = counting_waker();
    assert!(fut.as_mut().poll(&mut Context::from_waker(&w1)).is_pending());
    let e1 = e.clone();
    let h1 = spawn(move || e1.set());
    let e2 = e.clone();
    let h2 = spawn(move || e2.reset());
    h1.join().unwrap();
    h2.join().unwrap();
    assert!(c1.load(Ordering::SeqCst) > 0, "C14: set() was called while the waiter was pending but it was not woken");
    let (w2, _c2) = counting_waker();
    assert!(fut.as_mut().poll(&mut Context::from_waker(&w2)).is_ready(), "C14: the event was set while the future waited, but it does not complete");
    drop(fut);
}

/// set() on one thread races with set(); reset() on another; afterwards the event must still work:
/// is_set() follows reset() / set(), and a waiter registered while it is reset is woken by set()
fn event_setters_race() {
    let e = Arc::new(GenericManualResetEvent::<LoomRaw>::new(false));
    let _ = e.is_set();
    let e1 = e.clone();
    let h1 = spawn(move || e1.set());
    let e2 = e.clone();
    let h2 = spawn(move || {
        e2.set();
        e2.reset();
    });
    h1.join().unwrap();
    h2.join().unwrap();
    e.reset();
    assert!(!e.is_set(), "C14: is_set() is true after reset()");
    let er: &'static GenericManualResetEvent<LoomRaw> = unsafe { &*(&*e as *const GenericManualResetEvent<LoomRaw>) };
    let mut fut = Box::pin(er.wait());
    let (w1, c1) = counting_waker();
    assert!(fut.as_mut().poll(&mut Context::from_waker(&w1)).is_pending(), "C14: wait future completes although the event is reset");
    e.set();
    assert!(e.is_set(), "C14: is_set() is false after set()");
    assert!(c1.load(Ordering::SeqCst) > 0, "C14: set() did not wake the pending waiter");
    assert!(fut.as_mut().poll(&mut Context::from_waker(&w1)).is_ready(), "C14: wait future pending although the event is set");
    drop(fut);
}

// ------------------------------------------------------------------- mpmc

struct DropCount(std::sync::Arc<AtomicUsize>);
impl Drop for DropCount {
    fn drop(&mut self) {
        self.0.fetch_add(1, Ordering::SeqCst);
    }
}

/// the last receiver is dropped while another thread is sending: afterwards no accepted value may
/// still be alive inside the channel although a sender handle exists
fn mpmc_last_receiver_clears() {
    let drops = std::sync::Arc::new(AtomicUsize::new(0));
    let (tx, rx) = sh::generic_channel::<LoomRaw, DropCount, FixedHeapBuf<DropCount>>(2);
    let _ = rx.try_receive();
    assert!(tx.try_send(DropCount(drops.clone())).is_ok());
    let tx2 = tx.clone();
    let d2 = drops.clone();
    let h1 = spawn(move || {
        let _ = tx2.try_send(DropCount(d2));
    });
    let h2 = spawn(move || drop(rx));
    h1.join().unwrap();
    h2.join().unwrap();
    assert_eq!(drops.load(Ordering::SeqCst), 2, "C11: the last receiver was dropped but buffered values are still alive inside the channel");
    drop(tx);
}

/// a notified receiver is dropped on one thread while another thread is inside an unrelated
/// critical section of the channel: the wake-up must still be passed on to the next receiver
fn mpmc_notified_drop_contended() {
    let (tx, rx) = sh::generic_channel::<LoomRaw, u32, FixedHeapBuf<u32>>(1);
    let _ = rx.try_receive();
    let mut r1 = Box::pin(rx.receive());
    let mut r2 = Box::pin(rx.receive());
    let (w1, c1) = counting_waker();
    let (w2, c2) = counting_waker();
    assert!(r1.as_mut().poll(&mut Context::from_waker(&w1)).is_pending());
    assert!(r2.as_mut().poll(&mut Context::from_waker(&w2)).is_pending());
    tx.try_send(1).unwrap();
    assert_eq!(c1.load(Ordering::SeqCst), 1, "C10: the oldest receiver must be woken by the send");
    let tx2 = tx.clone();
    let hx = spawn(move || {
        let _ = tx2.try_send(2); // Full: a critical section that notifies nobody
    });
    let hd = spawn(move || drop(r1));
    hx.join().unwrap();
    hd.join().unwrap();
    assert!(c2.load(Ordering::SeqCst) > 0, "C10: a notified receiver was dropped but the wake-up was not passed on to the next pending receiver");
    assert_eq!(r2.as_mut().poll(&mut Context::from_waker(&w2)), Poll::Ready(Some(1)), "C10: the value is buffered but the woken receiver does not get it");
}

/// a parked send future is cancelled while another thread receives: the value ends in exactly one place
fn mpmc_cancel_vs_receive(cap: usize) {
    let (tx, rx) = sh::generic_channel::<LoomRaw, u32, FixedHeapBuf<u32>>(cap);
    let _ = rx.try_receive();
    for i in 0..cap as u32 {
        tx.try_send(100 + i).unwrap();
    }
    let mut fut = Box::pin(tx.send(5));
    let (w1, _c1) = counting_waker();
    assert!(fut.as_mut().poll(&mut Context::from_waker(&w1)).is_pending());
    let rx2 = rx.clone();
    let h = spawn(move || {
        let mut got = vec![];
        for _ in 0..=cap {
            if let Ok(v) = rx2.try_receive() {
                got.push(v);
            }
        }
        got
    });
    let back = unsafe { fut.as_mut().get_unchecked_mut().cancel() };
    let mut got = h.join().unwrap();
    while let Ok(v) = rx.try_receive() {
        got.push(v);
    }
    let delivered = got.contains(&5);
    assert!(delivered ^ (back == Some(5)), "C08: the cancelled value must end in exactly one place: handed back {:?}, received {:?}", back, got);
}
fn mpmc_cancel_vs_receive_cap0() {
    mpmc_cancel_vs_receive(0)
}
fn mpmc_cancel_vs_receive_cap1() {
    mpmc_cancel_vs_receive(1)
}

/// close() races with a consumer that abandons its parked receive and with a parked sender that is cancelled
fn mpmc_close_vs_abandon_v(rev: bool) {
    let (tx, rx) = sh::generic_channel::<LoomRaw, u32, FixedHeapBuf<u32>>(1);
    let _ = rx.try_receive();
    let mut r1 = Box::pin(rx.receive());
    let mut r2 = Box::pin(rx.receive());
    let (w1, _c1) = counting_waker();
    let (w2, c2) = counting_waker();
    // `rev`: the abandoned future is the most recently queued one instead of the oldest
    if rev {
        assert!(r2.as_mut().poll(&mut Context::from_waker(&w2)).is_pending());
        assert!(r1.as_mut().poll(&mut Context::from_waker(&w1)).is_pending());
    } else {
        assert!(r1.as_mut().poll(&mut Context::from_waker(&w1)).is_pending());
        assert!(r2.as_mut().poll(&mut Context::from_waker(&w2)).is_pending());
    }
    let h1 = spawn(move || drop(r1));
    let tx2 = tx.clone();
    let h2 = spawn(move || {
        let _ = tx2.close();
    });
    h1.join().unwrap();
    h2.join().unwrap();
    assert!(c2.load(Ordering::SeqCst) > 0, "C11: close() did not wake a pending receiver");
    assert_eq!(r2.as_mut().poll(&mut Context::from_waker(&w2)), Poll::Ready(None), "C11: receive on a closed, empty channel must yield None");
    drop(tx);
}
fn mpmc_close_vs_abandon() {
    mpmc_close_vs_abandon_v(false)
}
fn mpmc_close_vs_abandon_rev() {
    mpmc_close_vs_abandon_v(true)
}

/// The first poll of a send future on a full channel races with close(): afterwards the future
/// has failed with its own value, or is pending and has been woken (and then fails).
fn mpmc_close_vs_first_send_poll(cap: usize) {
    let (tx, rx) = sh::generic_channel::<LoomRaw, u32, FixedHeapBuf<u32>>(cap);
    let _ = rx.try_receive();
    if cap > 0 {
        tx.try_send(1).unwrap();
    }
    let mut f = Box::pin(tx.send(2));
    let (w, c) = counting_waker();
    let tx2 = tx.clone();
    let h = spawn(move || {
        let _ = tx2.close();
    });
    let first = f.as_mut().poll(&mut Context::from_waker(&w));
    h.join().unwrap();
    let res = match first {
        Poll::Ready(r) => r,
        Poll::Pending => {
            assert!(c.load(Ordering::SeqCst) > 0, "C10: the channel is closed but the pending send future has not been woken");
            match f.as_mut().poll(&mut Context::from_waker(&w)) {
                Poll::Ready(r) => r,
                Poll::Pending => panic!("C11: a send future stays pending on a closed channel"),
            }
        }
    };
    match res {
        Err(e) => assert_eq!(e.0, 2, "C08: the rejected send must hand back its own value"),
        Ok(()) => panic!("C11: a send that could not be accepted before close() (the buffer was full) succeeded"),
    }
    drop(f);
    let _keep = rx;
}
fn mpmc_close_vs_first_send_poll_cap0() {
    mpmc_close_vs_first_send_poll(0)
}
fn mpmc_close_vs_first_send_poll_cap1() {
    mpmc_close_vs_first_send_poll(1)
}

/// A receiver is parked; try_send(1) on one thread races with a barging try_receive() on another;
/// afterwards a second value is sent. A value is then buffered while the receiver is pending, so it
/// must hold a wake-up (from the first send - whether or not the barger took that value - or from
/// the second).
fn mpmc_barger_vs_notified() {
    let (tx, rx) = sh::generic_channel::<LoomRaw, u32, FixedHeapBuf<u32>>(2);
    let _ = rx.try_receive();
    let mut r = Box::pin(rx.receive());
    let (w, c) = counting_waker();
    assert!(r.as_mut().poll(&mut Context::from_waker(&w)).is_pending());
    let tx1 = tx.clone();
    let h1 = spawn(move || {
        tx1.try_send(1).unwrap();
    });
    let rx2 = rx.clone();
    let h2 = spawn(move || rx2.try_receive().ok());
    h1.join().unwrap();
    let barged = h2.join().unwrap();
    tx.try_send(2).unwrap();
    assert!(c.load(Ordering::SeqCst) > 0, "C10: a value is buffered and a receiver is pending, but it has not been woken since its last poll");
    let want = if barged.is_some() { 2 } else { 1 };
    assert_eq!(r.as_mut().poll(&mut Context::from_waker(&w)), Poll::Ready(Some(want)), "C09/C10: the woken receiver does not get the oldest buffered value");
    drop(r);
}

/// The last sender handle is dropped (implicit close) while a receive future is polled for the
/// first time: either that poll already sees the closed channel, or the future was registered
/// in time and close wakes it; it must never be left pending and un-woken on a closed channel.
macro_rules! close_vs_first_recv_poll {
    ($name:ident, $mk:expr, $touch:expr, $recv:expr, $props:literal) => {
        fn $name() {
            let (tx, rx) = $mk;
            $touch(&rx);
            let mut f = Box::pin($recv(&rx));
            let (w, c) = counting_waker();
            let h = spawn(move || drop(tx));
            let first = f.as_mut().poll(&mut Context::from_waker(&w));
            h.join().unwrap();
            match first {
                Poll::Ready(v) => assert!(v.is_none(), concat!($props, ": a receive on an empty channel completed with a value")),
                Poll::Pending => {
                    assert!(c.load(Ordering::SeqCst) > 0, concat!($props, ": the channel is closed (last sender dropped) but the pending receive future has not been woken"));
                    match f.as_mut().poll(&mut Context::from_waker(&w)) {
                        Poll::Ready(v) => assert!(v.is_none(), concat!($props, ": a receive on an empty closed channel completed with a value")),
                        Poll::Pending => panic!(concat!($props, ": a receive future stays pending on a closed channel")),
                    }
                }
            }
            drop(f);
            drop(rx);
        }
    };
}
close_vs_first_recv_poll!(state_close_vs_first_recv_poll, sh::generic_state_broadcast_channel::<LoomRaw, u32>(), |rx: &sh::GenericStateReceiver<LoomRaw, u32>| { let _ = rx.try_receive(StateId::new()); }, |rx: &sh::GenericStateReceiver<LoomRaw, u32>| rx.receive(StateId::new()), "C11/C13");
close_vs_first_recv_poll!(oneshot_close_vs_first_recv_poll, sh::generic_oneshot_channel::<LoomRaw, u32>(), |_rx: &sh::GenericOneshotReceiver<LoomRaw, u32>| {}, |rx: &sh::GenericOneshotReceiver<LoomRaw, u32>| rx.receive(), "C11/C12");
close_vs_first_recv_poll!(bcast_close_vs_first_recv_poll, sh::generic_oneshot_broadcast_channel::<LoomRaw, u32>(), |_rx: &sh::GenericOneshotBroadcastReceiver<LoomRaw, u32>| {}, |rx: &sh::GenericOneshotBroadcastReceiver<LoomRaw, u32>| rx.receive(), "C11/C12");
close_vs_first_recv_poll!(mpmc_close_vs_first_recv_poll, sh::generic_channel::<LoomRaw, u32, FixedHeapBuf<u32>>(1), |rx: &sh::GenericReceiver<LoomRaw, u32, FixedHeapBuf<u32>>| { let _ = rx.try_receive(); }, |rx: &sh::GenericReceiver<LoomRaw, u32, FixedHeapBuf<u32>>| rx.receive(), "C10/C11");

/// two threads close the channel: once close() has returned (with either status) on a thread,
/// a send from that thread must fail
fn mpmc_double_close() {
    let (tx, rx) = sh::generic_channel::<LoomRaw, u32, FixedHeapBuf<u32>>(2);
    let _ = rx.try_receive();
    let hs: Vec<_> = (0..2u32)
        .map(|i| {
            let tx = tx.clone();
            spawn(move || {
                let st = tx.close();
                assert!(tx.try_send(i).is_err(), "C11: a send succeeded after close() had returned");
                st.is_newly_closed()
            })
        })
        .collect();
    let newly: Vec<bool> = hs.into_iter().map(|h| h.join().unwrap()).collect();
    assert_eq!(newly.iter().filter(|b| **b).count(), 1, "C11: close() must report NewlyClosed exactly once ({:?})", newly);
    assert!(!tx.close().is_newly_closed(), "C11: a later close() must report AlreadyClosed");
    assert!(tx.try_send(9).is_err(), "C11: close is permanent");
    let _keep = rx;
}

/// cap 1: value 1 buffered, send(2) parked; a receive races with try_send(3): 2 took effect before 3
fn mpmc_refill_race() {
    let (tx, rx) = sh::generic_channel::<LoomRaw, u32, FixedHeapBuf<u32>>(1);
    let _ = rx.try_receive();
    tx.try_send(1).unwrap();
    let mut parked = Box::pin(tx.send(2));
    let (w1, _c1) = counting_waker();
    assert!(parked.as_mut().poll(&mut Context::from_waker(&w1)).is_pending());
    let rx2 = rx.clone();
    let h1 = spawn(move || rx2.try_receive().ok());
    let tx2 = tx.clone();
    let h2 = spawn(move || tx2.try_send(3).is_ok());
    let first = h1.join().unwrap();
    let third_accepted = h2.join().unwrap();
    assert_eq!(first, Some(1), "C09: the buffered value must be received first");
    let mut rest = vec![];
    let mut parked_done = false;
    loop {
        if !parked_done {
            parked_done = parked.as_mut().poll(&mut Context::from_waker(&w1)).is_ready();
        }
        match rx.try_receive() {
            Ok(v) => rest.push(v),
            Err(_) => break,
        }
        if rest.len() > 4 {
            break;
        }
    }
    let want: Vec<u32> = if third_accepted { vec![2, 3] } else { vec![2] };
    assert_eq!(rest, want, "C09: values must be received in the order in which their sends took effect");
}

/// capacity `cap` with `cap - 1` values buffered: two threads call try_send at the same time and
/// nobody receives. Exactly one of them is accepted, the other one gets its own value handed back
/// as `Full`; afterwards the buffered values come out in order and nothing else is stored.
fn mpmc_try_send_race_v(cap: usize) {
    use futures_intrusive::channel::{TryReceiveError, TrySendError};
    let (tx, rx) = sh::generic_channel::<LoomRaw, u32, FixedHeapBuf<u32>>(cap);
    let _ = rx.try_receive();
    for i in 1..cap as u32 {
        tx.try_send(100 + i).unwrap();
    }
    let hs: Vec<_> = (1..=2u32)
        .map(|i| {
            let tx = tx.clone();
            spawn(move || match tx.try_send(i) {
                Ok(()) => None,
                Err(TrySendError::Full(v)) => Some(v),
                Err(TrySendError::Closed(v)) => panic!("C11: try_send({}) reported Closed on an open channel", v),
            })
        })
        .collect();
    let back: Vec<Option<u32>> = hs.into_iter().map(|h| h.join().unwrap()).collect();
    let refused: Vec<u32> = back.iter().flatten().copied().collect();
    assert_eq!(refused.len(), 1, "C09: {} free slot, two concurrent try_send calls, nobody receives: exactly one must be accepted (refused: {:?})", 1, refused);
    let r = refused[0];
    assert!(back[(r - 1) as usize] == Some(r), "C08: a refused try_send must hand back its own value, got {:?}", back);
    let accepted = 3 - r;
    let mut got = vec![];
    for _ in 0..cap + 2 {
        match rx.try_receive() {
            Ok(v) => got.push(v),
            Err(TryReceiveError::Empty) => break,
            Err(TryReceiveError::Closed) => panic!("C11: try_receive reported Closed on an open channel"),
        }
    }
    let mut want: Vec<u32> = (1..cap as u32).map(|i| 100 + i).collect();
    want.push(accepted);
    assert_eq!(got, want, "C08/C09: the channel must hold exactly the earlier values and the accepted one, in order");
}
fn mpmc_try_send_race_cap1() {
    mpmc_try_send_race_v(1)
}
fn mpmc_try_send_race_cap2() {
    mpmc_try_send_race_v(2)
}

/// two producers, one consumer; per-producer order must survive
fn mpmc_2p1c(cap: usize, second: bool) {
    let (tx, rx) = sh::generic_channel::<LoomRaw, u32, FixedHeapBuf<u32>>(cap);
    let _ = rx.try_receive();
    let hs: Vec<_> = (0..2u32)
        .map(|i| {
            let tx = tx.clone();
            spawn(move || {
                loom::future::block_on(async {
                    tx.send(i * 10).await.unwrap();
                    if i == 0 && second {
                        tx.send(i * 10 + 1).await.unwrap();
                    }
                });
            })
        })
        .collect();
    drop(tx);
    let mut got = vec![];
    loom::future::block_on(async {
        while let Some(v) = rx.receive().await {
            got.push(v);
        }
    });
    for h in hs {
        h.join().unwrap();
    }
    let p0: Vec<u32> = got.iter().copied().filter(|v| *v < 10).collect();
    let want0: Vec<u32> = if second { vec![0, 1] } else { vec![0] };
    assert_eq!(p0, want0, "C09: per-producer order violated: {:?}", got);
    got.sort();
    let mut all = want0.clone();
    all.push(10);
    assert_eq!(got, all, "C08: values lost or duplicated");
}
fn mpmc_2p1c_cap0() {
    mpmc_2p1c(0, false)
}
fn mpmc_2p1c_cap1() {
    mpmc_2p1c(1, true)
}
fn mpmc_2p1c_cap0_seq() {
    mpmc_2p1c(0, true)
}

/// one producer, two consumers one of which abandons a pending receive
fn mpmc_abandon(cap: usize) {
    let (tx, rx) = sh::generic_channel::<LoomRaw, u32, FixedHeapBuf<u32>>(cap);
    let _ = rx.try_receive();
    let rx2 = rx.clone();
    let h1 = spawn(move || match poll_once_and_drop(rx2.receive()) {
        Some(v) => v,
        None => None,
    });
    let h2 = spawn(move || {
        loom::future::block_on(async {
            tx.send(7).await.unwrap();
        });
    });
    let v = loom::future::block_on(async { rx.receive().await });
    let a = h1.join().unwrap();
    h2.join().unwrap();
    assert!((a == Some(7)) ^ (v == Some(7)), "C08: exactly one consumer must get the value: {:?} {:?}", a, v);
}
fn mpmc_abandon_cap0() {
    mpmc_abandon(0)
}
fn mpmc_abandon_cap1() {
    mpmc_abandon(1)
}

/// receiver awaits while the last of two sender clones is dropped on two other threads
fn mpmc_last_sender_closes() {
    let (tx, rx) = sh::generic_channel::<LoomRaw, u32, FixedHeapBuf<u32>>(1);
    let _ = rx.try_receive();
    let tx2 = tx.clone();
    let h1 = spawn(move || {
        drop(tx);
    });
    let h2 = spawn(move || {
        let _ = tx2.try_send(5);
        drop(tx2);
    });
    let mut got = vec![];
    loom::future::block_on(async {
        while let Some(v) = rx.receive().await {
            got.push(v);
        }
    });
    h1.join().unwrap();
    h2.join().unwrap();
    assert_eq!(got, vec![5], "C11: accepted value must be delivered before None");
}

/// A pending future that outlives every handle: the last sender and the last receiver are dropped
/// by two threads at the same time. Whoever is last has to close the channel, so the orphaned
/// future must have been woken and must complete.
fn mpmc_orphan_recv() {
    let (tx, rx) = sh::generic_channel::<LoomRaw, u32, FixedHeapBuf<u32>>(1);
    let _ = rx.try_receive();
    let mut r = Box::pin(rx.receive());
    let (w, c) = counting_waker();
    assert!(r.as_mut().poll(&mut Context::from_waker(&w)).is_pending());
    let h1 = spawn(move || drop(tx));
    let h2 = spawn(move || drop(rx));
    h1.join().unwrap();
    h2.join().unwrap();
    assert!(c.load(Ordering::SeqCst) > 0, "C10: every handle is gone (channel closed) but the pending receive future was not woken");
    assert_eq!(r.as_mut().poll(&mut Context::from_waker(&w)), Poll::Ready(None), "C11: receive on a channel without handles must yield None");
}

fn mpmc_orphan_send() {
    let (tx, rx) = sh::generic_channel::<LoomRaw, u32, FixedHeapBuf<u32>>(0);
    let _ = rx.try_receive();
    let mut f = Box::pin(tx.send(7));
    let (w, c) = counting_waker();
    assert!(f.as_mut().poll(&mut Context::from_waker(&w)).is_pending());
    let h1 = spawn(move || drop(tx));
    let h2 = spawn(move || drop(rx));
    h1.join().unwrap();
    h2.join().unwrap();
    assert!(c.load(Ordering::SeqCst) > 0, "C10: every handle is gone (channel closed) but the pending send future was not woken");
    match f.as_mut().poll(&mut Context::from_waker(&w)) {
        Poll::Ready(Err(e)) => assert_eq!(e.0, 7, "C08: the rejected send must hand back its own value"),
        other => panic!("C11: a send on a channel without handles must fail, got {:?}", other.map(|r| r.is_ok())),
    }
}

fn state_orphan_recv() {
    let (tx, rx) = sh::generic_state_broadcast_channel::<LoomRaw, u32>();
    let _ = rx.try_receive(StateId::new());
    let mut r = Box::pin(rx.receive(StateId::new()));
    let (w, c) = counting_waker();
    assert!(r.as_mut().poll(&mut Context::from_waker(&w)).is_pending());
    let h1 = spawn(move || drop(tx));
    let h2 = spawn(move || drop(rx));
    h1.join().unwrap();
    h2.join().unwrap();
    assert!(c.load(Ordering::SeqCst) > 0, "C13: every handle is gone (channel closed) but the pending receive future was not woken");
    assert!(matches!(r.as_mut().poll(&mut Context::from_waker(&w)), Poll::Ready(None)), "C13: receive on a closed channel without a newer state must yield None");
}

fn bcast_orphan_recv() {
    let (tx, rx) = sh::generic_oneshot_broadcast_channel::<LoomRaw, u32>();
    let _ = poll_once_and_drop(rx.receive());
    let mut r = Box::pin(rx.receive());
    let (w, c) = counting_waker();
    assert!(r.as_mut().poll(&mut Context::from_waker(&w)).is_pending());
    let h1 = spawn(move || drop(tx));
    let h2 = spawn(move || drop(rx));
    h1.join().unwrap();
    h2.join().unwrap();
    assert!(c.load(Ordering::SeqCst) > 0, "C12: every handle is gone (channel closed) but the pending receive future was not woken");
    assert_eq!(r.as_mut().poll(&mut Context::from_waker(&w)), Poll::Ready(None), "C12: receive on a closed channel without value must yield None");
}

fn oneshot_orphan_recv() {
    let (tx, rx) = sh::generic_oneshot_channel::<LoomRaw, u32>();
    let mut r = Box::pin(rx.receive());
    let (w, c) = counting_waker();
    assert!(r.as_mut().poll(&mut Context::from_waker(&w)).is_pending());
    let h1 = spawn(move || drop(tx));
    let h2 = spawn(move || drop(rx));
    h1.join().unwrap();
    h2.join().unwrap();
    assert!(c.load(Ordering::SeqCst) > 0, "C12: every handle is gone (channel closed) but the pending receive future was not woken");
    assert_eq!(r.as_mut().poll(&mut Context::from_waker(&w)), Poll::Ready(None), "C12: receive on a closed channel without value must yield None");
}

/// a transient clone/drop of a sender races with the drop of another sender clone while the
/// original sender and the receiver stay alive: the channel must stay open
fn mpmc_transient_clone() {
    let (tx, rx) = sh::generic_channel::<LoomRaw, u32, FixedHeapBuf<u32>>(1);
    let _ = rx.try_receive();
    let tx_a = tx.clone();
    let tx_b = tx.clone();
    let h1 = spawn(move || {
        let t = tx_a.clone();
        drop(t);
        drop(tx_a);
    });
    let h2 = spawn(move || {
        drop(tx_b);
    });
    h1.join().unwrap();
    h2.join().unwrap();
    assert!(tx.try_send(1).is_ok(), "C11: channel closed although a sender and a receiver handle are alive");
    assert_eq!(rx.try_receive().ok(), Some(1));
    drop(tx);
    assert!(matches!(rx.try_receive(), Err(futures_intrusive::channel::TryReceiveError::Closed)), "C11: channel not closed after the last sender was dropped");
}

/// receiver clones are dropped on two threads, one receiver stays: still open; then the last one goes: closed
fn mpmc_receiver_clones() {
    let (tx, rx) = sh::generic_channel::<LoomRaw, u32, FixedHeapBuf<u32>>(1);
    let _ = rx.try_receive();
    let rx_a = rx.clone();
    let rx_b = rx.clone();
    let h1 = spawn(move || drop(rx_a));
    let h2 = spawn(move || {
        let r = rx_b.clone();
        drop(rx_b);
        drop(r);
    });
    h1.join().unwrap();
    h2.join().unwrap();
    assert!(tx.try_send(1).is_ok(), "C11: channel closed although a sender and a receiver handle are alive");
    drop(rx);
    assert!(tx.try_send(2).is_err(), "C11: channel not closed after the last receiver was dropped");
}

fn state_handles_race() {
    let (tx, rx) = sh::generic_state_broadcast_channel::<LoomRaw, u32>();
    let _ = rx.try_receive(StateId::new());
    let rx_a = rx.clone();
    let rx_b = rx.clone();
    let tx_a = tx.clone();
    let h1 = spawn(move || {
        drop(rx_a);
        drop(tx_a);
    });
    let tx_b = tx.clone();
    let h2 = spawn(move || {
        drop(rx_b);
        let t = tx_b.clone();
        drop(t);
        drop(tx_b);
    });
    h1.join().unwrap();
    h2.join().unwrap();
    assert!(tx.send(1).is_ok(), "C11: state channel closed although a sender and a receiver handle are alive");
    let rx2 = rx.clone();
    drop(tx);
    assert!(rx2.try_receive(StateId::new()).is_some());
    let v = loom::future::block_on(async {
        let (id, _) = rx2.try_receive(StateId::new()).unwrap();
        rx2.receive(id).await
    });
    assert!(v.is_none(), "C11: state channel not closed after the last sender was dropped");
    drop(rx);
}

fn bcast_handles_race() {
    let (tx, rx) = sh::generic_oneshot_broadcast_channel::<LoomRaw, u32>();
    let _ = poll_once_and_drop(rx.receive());
    let rx_a = rx.clone();
    let rx_b = rx.clone();
    let h1 = spawn(move || drop(rx_a));
    let h2 = spawn(move || drop(rx_b));
    h1.join().unwrap();
    h2.join().unwrap();
    assert!(tx.send(5).is_ok(), "C11: oneshot broadcast channel closed although the sender and a receiver handle are alive");
    let v = loom::future::block_on(async { rx.receive().await });
    assert_eq!(v, Some(5));
}

/// the consumer is a stream; the producer sends two values and drops its handle
fn mpmc_stream_consumer() {
    use futures_core::stream::{FusedStream, Stream};
    let (tx, rx) = sh::generic_channel::<LoomRaw, u32, FixedHeapBuf<u32>>(1);
    let _ = rx.try_receive();
    let h = spawn(move || {
        loom::future::block_on(async {
            tx.send(1).await.unwrap();
            tx.send(2).await.unwrap();
        });
    });
    let mut st = Box::pin(rx.into_stream());
    let mut got = vec![];
    loom::future::block_on(async {
        loop {
            match std::future::poll_fn(|cx| st.as_mut().poll_next(cx)).await {
                Some(v) => got.push(v),
                None => break,
            }
        }
    });
    h.join().unwrap();
    assert_eq!(got, vec![1, 2], "C17/C09: stream items differ from the sent sequence");
    assert!(st.is_terminated(), "C17: stream not terminated after None");
}

/// close() races with a producer: every value whose send reported Ok must still be received
fn mpmc_close_vs_send() {
    let (tx, rx) = sh::generic_channel::<LoomRaw, u32, FixedHeapBuf<u32>>(1);
    let _ = rx.try_receive();
    let tx2 = tx.clone();
    let h = spawn(move || {
        let mut ok = vec![];
        loom::future::block_on(async {
            for v in [1u32, 2] {
                if tx2.send(v).await.is_ok() {
                    ok.push(v);
                }
            }
        });
        ok
    });
    let _ = tx.close();
    let mut got = vec![];
    loom::future::block_on(async {
        while let Some(v) = rx.receive().await {
            got.push(v);
        }
    });
    let ok = h.join().unwrap();
    assert_eq!(got, ok, "C11/C08: values accepted before close {:?} but received {:?}", ok, got);
}

// ---------------------------------------------------------------- oneshot

/// shared oneshot: the sender sends and is dropped on another thread; the value must arrive
fn oneshot_shared_send_then_drop() {
    let (tx, rx) = sh::generic_oneshot_channel::<LoomRaw, u32>();
    let _ = poll_once_and_drop(rx.receive());
    let h = spawn(move || {
        assert!(tx.send(3).is_ok(), "C12: first send must succeed");
        drop(tx);
    });
    let v = loom::future::block_on(async { rx.receive().await });
    h.join().unwrap();
    assert_eq!(v, Some(3), "C12: the accepted value must be delivered although the sender was dropped");
}

/// shared oneshot: the sender is dropped without sending; the receiver must finish with None
fn oneshot_shared_drop_only() {
    let (tx, rx) = sh::generic_oneshot_channel::<LoomRaw, u32>();
    let _ = poll_once_and_drop(rx.receive());
    let h = spawn(move || drop(tx));
    let v = loom::future::block_on(async { rx.receive().await });
    h.join().unwrap();
    assert_eq!(v, None, "C11: receive must yield None after the sender was dropped");
}


fn oneshot_competing() {
    let c = Arc::new(GenericOneshotChannel::<LoomRaw, u32>::new());
    let _ = poll_once_and_drop(c.receive());
    let hs: Vec<_> = (0..2)
        .map(|_| {
            let c = c.clone();
            spawn(move || loom::future::block_on(async { c.receive().await }))
        })
        .collect();
    assert!(c.send(9).is_ok(), "C12: first send must succeed");
    assert!(c.send(10).is_err(), "C12: second send must fail");
    let rs: Vec<Option<u32>> = hs.into_iter().map(|h| h.join().unwrap()).collect();
    assert_eq!(rs.iter().filter(|r| **r == Some(9)).count(), 1, "C12: exactly one receiver gets the value: {:?}", rs);
    assert!(rs.iter().all(|r| *r == Some(9) || r.is_none()));
}

fn broadcast_all() {
    let c = Arc::new(GenericOneshotBroadcastChannel::<LoomRaw, u32>::new());
    let _ = poll_once_and_drop(c.receive());
    let hs: Vec<_> = (0..2)
        .map(|_| {
            let c = c.clone();
            spawn(move || loom::future::block_on(async { c.receive().await }))
        })
        .collect();
    assert!(c.send(9).is_ok());
    let late = loom::future::block_on(async { c.receive().await });
    assert_eq!(late, Some(9));
    for h in hs {
        assert_eq!(h.join().unwrap(), Some(9), "C12: every receiver gets the value");
    }
}

// ------------------------------------------------------------------ state

fn state_followers() {
    let c = Arc::new(GenericStateBroadcastChannel::<LoomRaw, u32>::new());
    let _ = c.try_receive(StateId::new());
    let hs: Vec<_> = (0..2)
        .map(|_| {
            let c = c.clone();
            spawn(move || {
                loom::future::block_on(async {
                    let mut id = StateId::new();
                    let mut last = 0;
                    while let Some((nid, v)) = c.receive(id).await {
                        assert!(nid > id, "C13: id not increasing");
                        assert!(v > last, "C13: value went backwards");
                        id = nid;
                        last = v;
                    }
                    last
                })
            })
        })
        .collect();
    c.send(1).unwrap();
    c.send(2).unwrap();
    c.close();
    for h in hs {
        assert_eq!(h.join().unwrap(), 2, "C13: follower must converge on the latest state");
    }
}

/// send() races with a follower that abandons its parked receive; another follower must get the state
fn state_send_vs_abandon_v(rev: bool) {
    let c = Arc::new(GenericStateBroadcastChannel::<LoomRaw, u32>::new());
    let _ = c.try_receive(StateId::new());
    let cr: &'static GenericStateBroadcastChannel<LoomRaw, u32> = unsafe { &*(&*c as *const GenericStateBroadcastChannel<LoomRaw, u32>) };
    let mut r1 = Box::pin(cr.receive(StateId::new()));
    let mut r2 = Box::pin(cr.receive(StateId::new()));
    let (w1, _c1) = counting_waker();
    let (w2, c2) = counting_waker();
    // `rev`: the abandoned future is the most recently queued one instead of the oldest
    if rev {
        assert!(r2.as_mut().poll(&mut Context::from_waker(&w2)).is_pending());
        assert!(r1.as_mut().poll(&mut Context::from_waker(&w1)).is_pending());
    } else {
        assert!(r1.as_mut().poll(&mut Context::from_waker(&w1)).is_pending());
        assert!(r2.as_mut().poll(&mut Context::from_waker(&w2)).is_pending());
    }
    let keep = c.clone();
    let h1 = spawn(move || {
        drop(r1);
        let _ = &keep;
    });
    let c2h = c.clone();
    let h2 = spawn(move || {
        c2h.send(7).unwrap();
    });
    h1.join().unwrap();
    h2.join().unwrap();
    assert!(c2.load(Ordering::SeqCst) > 0, "C13: send() did not wake a pending receiver");
    match r2.as_mut().poll(&mut Context::from_waker(&w2)) {
        Poll::Ready(Some((_, 7))) => {}
        other => panic!("C13: the pending receiver must get the published state, got {:?}", other.map(|o| o.map(|x| x.1))),
    }
    drop(r2);
}
fn state_send_vs_abandon() {
    state_send_vs_abandon_v(false)
}
fn state_send_vs_abandon_rev() {
    state_send_vs_abandon_v(true)
}

/// oneshot broadcast: send() races with a receiver that abandons its parked receive
fn bcast_send_vs_abandon_v(rev: bool) {
    let c = Arc::new(GenericOneshotBroadcastChannel::<LoomRaw, u32>::new());
    let _ = poll_once_and_drop(c.receive());
    let cr: &'static GenericOneshotBroadcastChannel<LoomRaw, u32> = unsafe { &*(&*c as *const GenericOneshotBroadcastChannel<LoomRaw, u32>) };
    let mut r1 = Box::pin(cr.receive());
    let mut r2 = Box::pin(cr.receive());
    let (w1, _c1) = counting_waker();
    let (w2, c2) = counting_waker();
    // `rev`: the abandoned future is the most recently queued one instead of the oldest
    if rev {
        assert!(r2.as_mut().poll(&mut Context::from_waker(&w2)).is_pending());
        assert!(r1.as_mut().poll(&mut Context::from_waker(&w1)).is_pending());
    } else {
        assert!(r1.as_mut().poll(&mut Context::from_waker(&w1)).is_pending());
        assert!(r2.as_mut().poll(&mut Context::from_waker(&w2)).is_pending());
    }
    let keep = c.clone();
    let h1 = spawn(move || {
        drop(r1);
        let _ = &keep;
    });
    let c2h = c.clone();
    let h2 = spawn(move || {
        let _ = c2h.send(7);
    });
    h1.join().unwrap();
    h2.join().unwrap();
    assert!(c2.load(Ordering::SeqCst) > 0, "C12: send() did not wake a pending receiver");
    assert_eq!(r2.as_mut().poll(&mut Context::from_waker(&w2)), Poll::Ready(Some(7)), "C12: every receiver gets the value");
    drop(r2);
}
fn bcast_send_vs_abandon() {
    bcast_send_vs_abandon_v(false)
}
fn bcast_send_vs_abandon_rev() {
    bcast_send_vs_abandon_v(true)
}

/// state 1 is published; try_receive races with the next send: it must yield a state
fn state_try_receive_contended() {
    let c = Arc::new(GenericStateBroadcastChannel::<LoomRaw, u32>::new());
    let _ = c.try_receive(StateId::new());
    c.send(1).unwrap();
    let c2 = c.clone();
    let h = spawn(move || {
        c2.send(2).unwrap();
    });
    let r = c.try_receive(StateId::new());
    h.join().unwrap();
    assert!(matches!(r, Some((_, 1)) | Some((_, 2))), "C13: try_receive(StateId::new()) returned {:?} although a state is published", r.map(|x| x.1));
    epilogue_state(&c, 3);
}

// ------------------------------------------------------------------ timer

/// a due, registered timer must be woken by check_expirations() even if another thread is using the timer
fn timer_check_contended() {
    CLK.0.store(0, Ordering::SeqCst);
    let t = Arc::new(GenericTimerService::<LoomRaw>::new(&CLK));
    let _ = t.next_expiration();
    let tr: &'static GenericTimerService<LoomRaw> = unsafe { &*(&*t as *const GenericTimerService<LoomRaw>) };
    let mut fut = Box::pin(Timer::deadline(tr, 1));
    let (w1, c1) = counting_waker();
    assert!(fut.as_mut().poll(&mut Context::from_waker(&w1)).is_pending());
    CLK.0.store(1, Ordering::SeqCst);
    let t2 = t.clone();
    let h = spawn(move || {
        let _ = t2.next_expiration();
        let _ = poll_once_and_drop(Timer::deadline(&*t2, 5));
    });
    t.check_expirations();
    h.join().unwrap();
    assert!(c1.load(Ordering::SeqCst) > 0, "C15: check_expirations() ran with clock >= deadline but the registered future was not woken");
    assert!(fut.as_mut().poll(&mut Context::from_waker(&w1)).is_ready(), "C15: due timer future does not complete");
    drop(fut);
}


fn timer_two_waiters() {
    CLK.0.store(0, Ordering::SeqCst);
    let t = Arc::new(GenericTimerService::<LoomRaw>::new(&CLK));
    let _ = t.next_expiration();
    let hs: Vec<_> = [1u64, 2]
        .iter()
        .map(|&d| {
            let t = t.clone();
            spawn(move || {
                loom::future::block_on(async {
                    Timer::deadline(&*t, d).await;
                    assert!(CLK.now() >= d, "C15: timer completed early");
                    assert!(t.next_expiration() != Some(d), "C15: next_expiration() still reports the deadline of a timer future that has completed");
                });
            })
        })
        .collect();
    for now in 1..=2u64 {
        CLK.0.store(now, Ordering::SeqCst);
        t.check_expirations();
    }
    for h in hs {
        h.join().unwrap();
    }
    assert_eq!(t.next_expiration(), None, "C15: heap not empty after all timers expired");
    epilogue_timer(&t, 2);
}

/// one waiter abandons its timer future while the timer thread expires timers
fn timer_abandon() {
    CLK.0.store(0, Ordering::SeqCst);
    let t = Arc::new(GenericTimerService::<LoomRaw>::new(&CLK));
    let _ = t.next_expiration();
    let t1 = t.clone();
    let h1 = spawn(move || {
        let _ = poll_once_and_drop(Timer::deadline(&*t1, 1));
    });
    let t2 = t.clone();
    let h2 = spawn(move || {
        loom::future::block_on(async {
            Timer::deadline(&*t2, 1).await;
            assert!(CLK.now() >= 1, "C15: timer completed early");
        });
    });
    CLK.0.store(1, Ordering::SeqCst);
    t.check_expirations();
    h1.join().unwrap();
    h2.join().unwrap();
    assert_eq!(t.next_expiration(), None, "C15/C01: heap not empty after all timers expired or were dropped");
    epilogue_timer(&t, 1);
}

const SCENARIOS: &[(&str, &str, Scenario)] = &[
    ("event_set_vs_abandon", "wk:C01,C14", event_set_vs_abandon),
    ("event_set_vs_abandon_tail", "wk:C01,C14", event_set_vs_abandon_tail),
    ("mpmc_close_vs_abandon", "wk:C01,C11", mpmc_close_vs_abandon),
    ("mpmc_close_vs_abandon_rev", "wk:C01,C11", mpmc_close_vs_abandon_rev),
    ("timer_expire_vs_complete", "wk:C01,C15", timer_expire_vs_complete),
    ("event_set_vs_complete", "wk:C01,C14", event_set_vs_complete),
    ("alloc_race_timer", "C15,C18", alloc_race_timer),
    ("alloc_race_event", "C14,C18", alloc_race_event),
    ("alloc_race_sem", "C06,C18", alloc_race_sem),
    ("mpmc_buffer_exclusive", "C08,C16", mpmc_buffer_exclusive),
    ("timer_check_vs_first_poll", "wk:C15", timer_check_vs_first_poll),
    ("state_two_senders", "hook:C13", state_two_senders),
    ("oneshot_two_sends_by_ref", "C12", oneshot_two_sends_by_ref),
    ("timer_expire_vs_drop", "wk:C01,C15", timer_expire_vs_drop),
    ("event_set_vs_drop", "wk:C01,C14", event_set_vs_drop),
    ("sem_release_vs_drop", "wk:C01,C06", sem_release_vs_drop),
    ("mutex_unlock_vs_drop", "wk:C01,C03", mutex_unlock_vs_drop),
    ("mpmc_send_vs_drop_recv", "wk:C01,C10", mpmc_send_vs_drop_recv),
    ("event_set_vs_first_poll", "wk:C14", event_set_vs_first_poll),
    ("mutex_fair_newcomer", "wk:C03,C04", mutex_fair_newcomer),
    ("mutex_is_locked_contended", "C02", mutex_is_locked_contended),
    ("mpmc_debug_vs_push_exclusive", "C08,C16", mpmc_debug_vs_push_exclusive),
    ("mutex_debug_vs_guard", "C02,C16", mutex_debug_vs_guard),
    ("event_many_set_vs_reset", "C01,C14", event_many_set_vs_reset),
    ("timer_many_vs_abandon", "C01,C15", timer_many_vs_abandon),
    ("bcast_clone_exclusive", "C12,C16", bcast_clone_exclusive),
    ("state_clone_exclusive", "C13,C16", state_clone_exclusive),
    ("mpmc_close_vs_first_send_poll_cap0", "wk:C08,C10,C11", mpmc_close_vs_first_send_poll_cap0),
    ("mpmc_close_vs_first_send_poll_cap1", "wk:C08,C10,C11", mpmc_close_vs_first_send_poll_cap1),
    ("mpmc_barger_vs_notified", "wk:C09,C10", mpmc_barger_vs_notified),
    ("mpmc_double_close", "hook:C11", mpmc_double_close),
    ("mpmc_orphan_recv", "hook:wk:C10,C11", mpmc_orphan_recv),
    ("mpmc_orphan_send", "hook:wk:C08,C10,C11", mpmc_orphan_send),
    ("state_orphan_recv", "hook:wk:C11,C13", state_orphan_recv),
    ("bcast_orphan_recv", "hook:wk:C11,C12", bcast_orphan_recv),
    ("oneshot_orphan_recv", "hook:wk:C11,C12", oneshot_orphan_recv),
    ("state_send_vs_abandon", "wk:C01,C13", state_send_vs_abandon),
    ("state_send_vs_abandon_rev", "wk:C01,C13", state_send_vs_abandon_rev),
    ("bcast_send_vs_abandon", "wk:C01,C12", bcast_send_vs_abandon),
    ("bcast_send_vs_abandon_rev", "wk:C01,C12", bcast_send_vs_abandon_rev),
    ("mutex_barger_holds_fair", "wk:C02,C03", mutex_barger_holds_fair),
    ("mutex_barger_holds_unfair", "wk:C02,C03", mutex_barger_holds_unfair),
    ("sem_barger_holds_fair", "wk:C05,C06", sem_barger_holds_fair),
    ("sem_barger_holds_unfair", "wk:C05,C06", sem_barger_holds_unfair),
    ("mutex_requeue_vs_unlock", "wk:C02,C03", mutex_requeue_vs_unlock),
    ("mutex_fair_order", "C04", mutex_fair_order),
    ("sem_fair_order", "C07", sem_fair_order),
    ("event_set_vs_reset", "wk:C14", event_set_vs_reset),
    ("event_setters_race", "wk:C14", event_setters_race),
    ("mpmc_last_receiver_clears", "hook:C11", mpmc_last_receiver_clears),
    ("mpmc_refill_race", "wk:C09", mpmc_refill_race),
    ("mutex_is_locked_handover_fair", "C02", mutex_is_locked_handover_fair),
    ("mutex_is_locked_handover_unfair", "C02", mutex_is_locked_handover_unfair),
    ("state_close_vs_first_recv_poll", "C11,C13", state_close_vs_first_recv_poll),
    ("oneshot_close_vs_first_recv_poll", "C11,C12", oneshot_close_vs_first_recv_poll),
    ("bcast_close_vs_first_recv_poll", "C11,C12", bcast_close_vs_first_recv_poll),
    ("mpmc_close_vs_first_recv_poll", "C10,C11", mpmc_close_vs_first_recv_poll),
    ("mpmc_try_send_race_cap1", "C08,C09", mpmc_try_send_race_cap1),
    ("mpmc_try_send_race_cap2", "C08,C09", mpmc_try_send_race_cap2),
    ("mpmc_cancel_vs_receive_cap0", "wk:C01,C08", mpmc_cancel_vs_receive_cap0),
    ("mpmc_cancel_vs_receive_cap1", "wk:C01,C08", mpmc_cancel_vs_receive_cap1),
    ("mpmc_notified_drop_contended", "wk:C10", mpmc_notified_drop_contended),
    ("mutex_notified_drop_contended_fair", "wk:C03", mutex_notified_drop_contended_fair),
    ("mutex_notified_drop_contended_unfair", "wk:C03", mutex_notified_drop_contended_unfair),
    ("sem_notified_drop_contended_fair", "wk:C06", sem_notified_drop_contended_fair),
    ("sem_notified_drop_contended_unfair", "wk:C06", sem_notified_drop_contended_unfair),
    ("state_try_receive_contended", "C13", state_try_receive_contended),
    ("timer_check_contended", "wk:C15", timer_check_contended),
    ("swap_mutex_fair", "wk:C03", swap_mutex_fair),
    ("swap_mutex_unfair", "wk:C03", swap_mutex_unfair),
    ("swap_sem_fair", "wk:C06", swap_sem_fair),
    ("swap_sem_unfair", "wk:C06", swap_sem_unfair),
    ("swap_event", "wk:C14", swap_event),
    ("swap_mpmc_recv", "wk:C10", swap_mpmc_recv),
    ("swap_mpmc_send", "wk:C10", swap_mpmc_send),
    ("swap_oneshot", "wk:C12", swap_oneshot),
    ("swap_state", "wk:C13", swap_state),
    ("swap_timer", "wk:C15", swap_timer),
    ("mutex_cancel_in_queue_fair", "C01,C02,C03", mutex_cancel_in_queue_fair),
    ("mutex_cancel_in_queue_unfair", "C02,C03", mutex_cancel_in_queue_unfair),
    ("event_two_waiters", "C14", event_two_waiters),
    ("mpmc_stream_consumer", "C09,C17", mpmc_stream_consumer),
    ("mpmc_close_vs_send", "C08,C11", mpmc_close_vs_send),
    ("oneshot_shared_send_then_drop", "C12", oneshot_shared_send_then_drop),
    ("oneshot_shared_drop_only", "C11,C12", oneshot_shared_drop_only),
    ("timer_abandon", "C01,C15", timer_abandon),
    ("mutex_counter_fair", "C01,C02,C03", mutex_counter_fair),
    ("mutex_counter_unfair", "C01,C02,C03", mutex_counter_unfair),
    ("mutex_abandon_fair", "C01,C02,C03", mutex_abandon_fair),
    ("mutex_abandon_unfair", "C01,C02,C03", mutex_abandon_unfair),
    ("sem_mixed_fair", "C01,C05,C06", sem_mixed_fair),
    ("sem_mixed_unfair", "C01,C05,C06", sem_mixed_unfair),
    ("sem_timeout_fair", "C01,C05,C06", sem_timeout_fair),
    ("sem_timeout_unfair", "C01,C05,C06", sem_timeout_unfair),
    ("sem_thief", "C05,C06", sem_thief),
    ("sem_shared_mixed", "C01,C05,C06", sem_shared_mixed),
    ("sem_try_conserve", "C05", sem_try_conserve),
    ("event_set_reset_set", "C01,C14", event_set_reset_set),
    ("mpmc_2p1c_cap0", "C01,C08,C09,C10", mpmc_2p1c_cap0),
    ("mpmc_2p1c_cap1", "C08,C09,C10", mpmc_2p1c_cap1),
    ("mpmc_2p1c_cap0_seq", "thorough:C09,C10", mpmc_2p1c_cap0_seq),
    ("mpmc_abandon_cap0", "C01,C08,C10", mpmc_abandon_cap0),
    ("mpmc_abandon_cap1", "C01,C08,C10", mpmc_abandon_cap1),
    ("mpmc_last_sender_closes", "hook:C11", mpmc_last_sender_closes),
    ("mpmc_transient_clone", "hook:C11", mpmc_transient_clone),
    ("mpmc_receiver_clones", "hook:C11", mpmc_receiver_clones),
    ("state_handles_race", "hook:C11", state_handles_race),
    ("bcast_handles_race", "hook:C11", bcast_handles_race),
    ("oneshot_competing", "C01,C12", oneshot_competing),
    ("broadcast_all", "C12", broadcast_all),
    ("state_followers", "C01,C13", state_followers),
    ("timer_two_waiters", "C01,C15", timer_two_waiters),
];

fn main() {
    let args: Vec<String> = std::env::args().collect();
    match args.get(1).map(|s| s.as_str()) {
        Some("list") => {
            for (n, p, _) in SCENARIOS {
                println!("{} {}", n, p.replace("hook:", "").replace("wk:", ""));
            }
        }
        Some("run") => {
            let name = args.get(2).expect("scenario name");
            let (_, props, f) = SCENARIOS.iter().find(|s| s.0 == name).unwrap_or_else(|| {
                eprintln!("unknown scenario {}", name);
                std::process::exit(2)
            });
            if props.contains("wk:") {
                WAKER_POINTS.store(true, Ordering::Relaxed);
            }
            if props.contains("hook:") {
                HOOK_ON.store(true, Ordering::Relaxed);
                futures_intrusive::verif::sync::set_sched_hook(Some(sched_hook));
            }
            let pb = args.iter().position(|a| a == "--pb").and_then(|i| args.get(i + 1)).map(|s| s.as_str()).unwrap_or("2");
            if args.iter().any(|a| a == "--per-lock-ticks") {
                PER_LOCK_TICKS.store(true, Ordering::Relaxed);
            }
            if args.iter().any(|a| a == "--no-preempt-after-unlock") {
                PREEMPT_AFTER_UNLOCK.store(false, Ordering::Relaxed);
            }
            if args.iter().any(|a| a == "--no-preempt-in-cs") {
                PREEMPT_IN_CS.store(false, Ordering::Relaxed);
            }
            install_segv_handler();
            let mut b = loom::model::Builder::new();
            b.preemption_bound = if pb == "none" { None } else { Some(pb.parse().expect("preemption bound")) };
            b.max_branches = 20_000;
            if let Some(d) = args.iter().position(|a| a == "--max-secs").and_then(|i| args.get(i + 1)) {
                b.max_duration = Some(std::time::Duration::from_secs(d.parse().unwrap()));
            }
            static ITERS: AtomicUsize = AtomicUsize::new(0);
            let t0 = std::time::Instant::now();
            let f = *f;
            b.check(move || {
                ITERS.fetch_add(1, Ordering::Relaxed);
                reset_hook_registry();
                reset_tick_pool();
                f();
            });
            let dt = t0.elapsed().as_secs_f64();
            let capped = b.max_duration.map_or(false, |d| dt >= d.as_secs_f64());
            println!("LOOM-OK scenario={} preemption_bound={} schedules={} wall_s={:.2} duration_cap_hit={}", name, pb, ITERS.load(Ordering::Relaxed), dt, capped);
        }
        _ => {
            eprintln!("usage: filoom list | run <scenario> [--pb N|none] [--max-secs S]");
            std::process::exit(2);
        }
    }
}
