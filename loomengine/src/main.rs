fn main(){}
