"""Oracle for C16: rule table over the trait-fact matrix printed by typematrix.

Witness classes: lock M-- (NoopLock: the local flavour), MSY (parking_lot: the
thread-safe flavour), MS-/M-Y (synthetic, informational only); payload TSY
(i32), TS- (Cell), T-- (Rc), T-Y (!Send + Sync); buffer Array/FixedHeap/Growing
(Send iff payload Send) and RcBuf (!Send custom RingBuf)."""

PRIMS = {"GenericMutex", "GenericSemaphore", "GenericManualResetEvent", "GenericTimerService", "GenericChannel",
         "GenericOneshotChannel", "GenericOneshotBroadcastChannel", "GenericStateBroadcastChannel"}
FUTURES = {"GenericMutexLockFuture", "GenericSemaphoreAcquireFuture", "GenericSharedSemaphoreAcquireFuture",
           "GenericWaitForEventFuture", "ChannelReceiveFuture", "ChannelSendFuture", "sh::ChannelReceiveFuture",
           "sh::ChannelSendFuture", "StateReceiveFuture", "sh::StateReceiveFuture", "LocalTimerFuture", "TimerFuture"}
STREAMS = {"ChannelStream", "sh::SharedStream"}
GUARDS = {"GenericMutexGuard", "GenericSemaphoreReleaser", "GenericSharedSemaphoreReleaser"}
HANDLES = {"GenericSharedSemaphore", "sh::GenericOneshotSender", "sh::GenericOneshotReceiver", "sh::GenericOneshotBroadcastSender",
           "sh::GenericOneshotBroadcastReceiver", "sh::GenericStateSender", "sh::GenericStateReceiver", "sh::GenericSender",
           "sh::GenericReceiver"}
# types that carry no payload parameter
NO_PAYLOAD = {"GenericSemaphore", "GenericManualResetEvent", "GenericTimerService", "GenericSemaphoreAcquireFuture",
              "GenericSharedSemaphoreAcquireFuture", "GenericWaitForEventFuture", "GenericSemaphoreReleaser",
              "GenericSharedSemaphoreReleaser", "GenericSharedSemaphore", "LocalTimerFuture", "TimerFuture"}


# lock witnesses whose cells are verdicts: the local flavour, the thread-safe flavour, and a lock that
# may be moved but not shared (Send, !Sync) - for the latter the same "never shared between threads"
# rules as for NoopLock apply to everything that borrows or shares the primitive. The (!Send, Sync)
# witness stays informational (DESIGN.md C16).
VERDICT_LOCKS = ("M--", "MSY", "MS-", "")


def parse(text):
    cells, pairs = [], []
    for line in text.splitlines():
        f = line.split("|")
        if f[0] == "cell" and len(f) == 8:
            cells.append(dict(name=f[1], m=f[2], t=f[3] or "TSY", a=f[4], send=f[5] == "1", sync=f[6] == "1", unpin=f[7] == "1"))
        elif f[0] == "pair" and len(f) == 8:
            pairs.append(dict(name=f[1], m=f[2], t=f[3] or "TSY", a=f[4], res_send=f[5] == "1", recv_sync=f[6] == "1", recv_send=f[7] == "1"))
        elif f[0] == "impl" and len(f) == 5:
            # trait implemented or not: kept in the pair list (kind="impl")
            pairs.append(dict(kind="impl", name=f[1], m=f[2], t="TSY", a="", trait=f[3], has=f[4] == "1"))
    return cells, pairs


def t_send(t):
    return t in ("TSY", "TS-")


def t_sync(t):
    return t in ("TSY", "T-Y")


def evaluate(cells, pairs):
    """Returns (violations, informational, n_verdict_cells, n_rules_applied)."""
    viol, info = [], []
    applied = 0
    verdict_cells = 0

    def bad(c, trait, want, why, kind="cell"):
        sig = "%s|%s|%s|%s|%s|%s" % (kind, c["name"], c["m"], c["t"], c["a"], trait)
        rec = dict(signature=sig, message="%s<%s,%s,%s>: %s is %s, must be %s (%s)" % (c["name"], c["m"], c["t"], c["a"] or "-", trait, not want, want, why))
        (viol if c["m"] in VERDICT_LOCKS else info).append(rec)

    for c in cells:
        n, m, t, a = c["name"], c["m"], c["t"], c["a"]
        verdict = m in VERDICT_LOCKS
        verdict_cells += 3 if verdict else 0
        carries_t = n not in NO_PAYLOAD
        # R1: every future and stream is !Unpin (independent of all parameters)
        if n in FUTURES or n in STREAMS:
            applied += 1
            if c["unpin"]:
                bad(c, "Unpin", False, "a future that embeds a wait node must not be movable after its first poll")
        if m in ("M--", "MS-"):
            # R2: primitives on a lock that is not Sync (local flavour) are never shared between threads
            if n in PRIMS or n == "GenericSharedSemaphore":
                applied += 1
                if c["sync"]:
                    bad(c, "Sync", False, "a primitive on the non-thread-safe NoopLock must not be shared between threads")
            if n in FUTURES or n in STREAMS or n in GUARDS or n in HANDLES:
                applied += 1
                if c["send"]:
                    bad(c, "Send", False, "futures, guards, releasers and handles of a local (NoopLock) primitive must not cross threads")
        if m == "MSY":
            buf_send = t_send(t) and a != "RcBuf"
            if n in PRIMS:
                applied += 1
                if carries_t and not t_send(t) and c["sync"]:
                    bad(c, "Sync", False, "sharing the primitive hands the !Send payload to other threads")
                if n == "GenericChannel" and a == "RcBuf" and c["sync"]:
                    bad(c, "Sync", False, "sharing the channel lets other threads use and drop the !Send ring buffer")
                if n == "GenericChannel" and a == "RcBuf" and c["send"]:
                    bad(c, "Send", False, "moving the channel moves the !Send ring buffer to another thread")
                if (not carries_t or t == "TSY") and a != "RcBuf":
                    applied += 1
                    if not c["send"] or not c["sync"]:
                        bad(c, "Send+Sync", True, "documented: thread-safe primitives are Send + Sync for Send payloads")
            if n in FUTURES or n in STREAMS or n in HANDLES or n in GUARDS:
                applied += 1
                if carries_t and not t_send(t) and c["send"]:
                    bad(c, "Send", False, "it can yield or expose the !Send payload on another thread")
                if (n in STREAMS or n in HANDLES) and a == "RcBuf" and c["send"]:
                    bad(c, "Send", False, "it owns/shares a channel whose ring buffer is !Send")
                if n != "LocalTimerFuture" and (not carries_t or t == "TSY") and a != "RcBuf":
                    applied += 1
                    if not c["send"]:
                        bad(c, "Send", True, "documented / asserted by the crate's own tests: Send for Send payloads on a thread-safe lock")
                if n in HANDLES and (not carries_t or t == "TSY") and a != "RcBuf":
                    applied += 1
                    if not c["sync"]:
                        bad(c, "Sync", True, "documented: shared handles are Send + Sync for Send payloads")
            if n == "GenericMutexGuard":
                applied += 1
                if not t_sync(t) and c["sync"]:
                    bad(c, "Sync", False, "a shared guard hands out &T of a !Sync payload")
        if n == "LocalTimerFuture":
            applied += 1
            if c["send"]:
                bad(c, "Send", False, "the local timer future must not cross threads")
        if n == "GenericMutexGuard" and m == "M--":
            applied += 1
            if not t_sync(t) and c["sync"]:
                bad(c, "Sync", False, "a shared guard hands out &T of a !Sync payload")

    # borrowing / sharing implication on method results
    for p in pairs:
        verdict = p["m"] in ("M--", "MSY", "MS-")
        verdict_cells += 1 if verdict else 0
        applied += 1
        if p.get("kind") == "impl":
            # documented capabilities: every service is a LocalTimer, the thread-safe one a Timer
            # (that nobody else hands out Send futures is the pair rule on `Timer::deadline/delay`)
            want = True if p["trait"] == "LocalTimer" else (True if p["m"] == "MSY" else None)
            if want is not None and p["has"] != want:
                sig = "impl|%s|%s|%s" % (p["name"], p["m"], p["trait"])
                rec = dict(signature=sig, message="%s<%s> %s %s, which the crate documents for this lock class" % (p["name"], p["m"], "does not implement" if want else "implements", p["trait"]))
                (viol if verdict else info).append(rec)
            continue
        shared = p["name"].startswith("shared:")
        ok_recv = p["recv_send"] if shared else p["recv_sync"]
        if p["res_send"] and not ok_recv:
            sig = "pair|%s|%s|%s|%s" % (p["name"], p["m"], p["t"], p["a"])
            rec = dict(signature=sig, message="%s for <%s,%s,%s>: the result is Send although the %s it %s is not %s" % (
                p["name"], p["m"], p["t"], p["a"] or "-", "handle" if shared else "primitive", "shares" if shared else "borrows", "Send" if shared else "Sync"))
            (viol if verdict else info).append(rec)
    return viol, info, verdict_cells, applied
