#!/usr/bin/env python3
"""seedtest.py <seed-id> <property> <patch.diff> <demo.rs> [--checks C01,C05,...|all]

Confirms a seeded property-breaking change independently and runs the checks
against it:
  1. in a scratch worktree (/tmp/seedwt, outside /repo and /verif): the patch
     applies, the crate's whole test suite passes with it, the demonstration
     fails with it and passes without it;
  2. applies the patch to /repo's working tree, runs the selected ./check
     commands, reverts /repo (git checkout -- .).
Writes /verif/seeded/<seed-id>/{patch.diff,demo.rs,meta.json}."""
import json, os, re, shutil, subprocess, sys, time

WT = os.environ.get("SEEDWT", "/tmp/seedwt")
R = os.environ.get("REPO_DIR", "/repo")
V = os.environ.get("VERIF_DIR", "/verif")
ENV = dict(os.environ, CARGO_NET_OFFLINE="true", CARGO_TERM_COLOR="never")


def sh(cmd, cwd=None, timeout=3600):
    p = subprocess.run(cmd, cwd=cwd, env=ENV, shell=isinstance(cmd, str), stdout=subprocess.PIPE, stderr=subprocess.STDOUT, text=True, timeout=timeout)
    return p.returncode, p.stdout


def suite(cwd):
    rc, out = sh("cargo test --workspace --no-fail-fast --offline 2>&1", cwd)
    passed = sum(int(x) for x in re.findall(r"test result: \w+\. (\d+) passed", out))
    failed = sum(int(x) for x in re.findall(r"test result: \w+\. \d+ passed; (\d+) failed", out))
    return rc, passed, failed, out


def main():
    sid, prop, patch, demo = sys.argv[1:5]
    checks = "all"
    if "--checks" in sys.argv:
        checks = sys.argv[sys.argv.index("--checks") + 1]
    all_ids = ["C%02d" % i for i in range(1, 21)]
    check_ids = all_ids if checks == "all" else checks.split(",")
    meta = {"id": sid, "breaks_property": prop, "ran_at": time.strftime("%Y-%m-%d %H:%M:%S")}
    if not os.path.exists(WT):
        rc, out = sh(["git", "-C", "/repo", "worktree", "add", "--detach", WT, "HEAD"])
        assert rc == 0, out
        shutil.copy("/repo/Cargo.lock", WT)
    sh("git checkout -q --detach $(git -C /repo rev-parse HEAD) && git checkout -- . && git clean -fdq -e target -e Cargo.lock", WT)
    rc, out = sh(["git", "apply", "--check", patch], WT)
    if rc != 0:
        print("patch does not apply:", out)
        sys.exit(2)
    sh(["git", "apply", patch], WT)
    rc, passed, failed, out = suite(WT)
    meta["suite_with_change"] = {"exit": rc, "passed": passed, "failed": failed}
    print("suite with change: exit=%d passed=%d failed=%d" % (rc, passed, failed))
    if rc != 0 or failed:
        print(out[-3000:])
    name = "seed_demo_" + re.sub(r"\W", "_", sid)
    if "--unit" in sys.argv:
        # the demonstration is a #[cfg(test)] module that is appended to a (private) source file
        src = sys.argv[sys.argv.index("--unit") + 1]
        def with_demo():
            with open(os.path.join(WT, src), "a") as f:
                f.write("\n" + open(demo).read())
        with_demo()
        rc1, out1 = sh("cargo test --offline --lib seeded_demo 2>&1", WT)
        sh("git checkout -- .", WT)
        with_demo()
        rc2, out2 = sh("cargo test --offline --lib seeded_demo 2>&1", WT)
        if "running 0 tests" in out2 and "test result: ok. 0 passed" in out2 and "seeded_demo" not in out2:
            rc2 = 99
        sh("git checkout -- .", WT)
    else:
        shutil.copy(demo, os.path.join(WT, "tests", name + ".rs"))
        rc1, out1 = sh("cargo test --offline --test %s 2>&1" % name, WT)
        sh("git checkout -- .", WT)
        rc2, out2 = sh("cargo test --offline --test %s 2>&1" % name, WT)
        os.remove(os.path.join(WT, "tests", name + ".rs"))
    meta["demo_with_change_exit"] = rc1
    meta["demo_without_change_exit"] = rc2
    print("demo with change: exit=%d (want !=0); without: exit=%d (want 0)" % (rc1, rc2))
    if rc2 != 0:
        print(out2[-2000:])
    ok = (meta["suite_with_change"]["exit"] == 0 and failed == 0 and rc1 != 0 and rc2 == 0)
    meta["confirmed"] = ok
    # run the checks against /repo with the patch applied
    rc, out = sh(["git", "-C", R, "status", "--porcelain", "--untracked-files=no"])
    assert out.strip() == "", R + " working tree is not clean: " + out
    results = {}
    try:
        rc, out = sh(["git", "-C", R, "apply", patch])
        assert rc == 0, out
        for c in check_ids:
            t0 = time.time()
            rc, out = sh(["./check", c, "--tier", "quick"], V, timeout=1800)
            lines = [l for l in out.splitlines() if l.startswith("VIOLATION") or l.startswith("MACHINERY") or l.startswith("  ")]
            results[c] = {"exit": rc, "wall_s": round(time.time() - t0, 1), "first_lines": lines[:4]}
            print("  check %s -> exit %d (%.1fs) %s" % (c, rc, time.time() - t0, (lines[1].strip()[:200] if len(lines) > 1 else (lines[0][:200] if lines else ""))))
    finally:
        sh(["git", "-C", R, "checkout", "--", "."])
    meta["checks"] = results
    meta["caught_by"] = [c for c in check_ids if results.get(c, {}).get("exit") == 1]
    meta["machinery_errors"] = [c for c in check_ids if results.get(c, {}).get("exit") == 2]
    meta["target_property_caught"] = prop in meta["caught_by"]
    d = os.path.join("/verif/seeded", sid)
    os.makedirs(d, exist_ok=True)
    shutil.copy(patch, os.path.join(d, "patch.diff"))
    shutil.copy(demo, os.path.join(d, "demo.rs"))
    md = patch.replace(".diff", ".md")
    if os.path.exists(md):
        meta["needs_to_manifest"] = open(md).read()[:3000]
    meta["what_was_run"] = "scratch worktree %s: git apply, cargo test --workspace --offline, demo as tests/%s.rs with and without the change; then git -C /repo apply, ./check <id> --tier quick for %s, git -C /repo checkout -- ." % (WT, name, checks)
    with open(os.path.join(d, "meta.json"), "w") as f:
        json.dump(meta, f, indent=1)
    print("confirmed=%s caught_by=%s target_caught=%s" % (ok, meta["caught_by"], meta["target_property_caught"]))


if __name__ == "__main__":
    main()
