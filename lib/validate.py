#!/usr/bin/env python3
"""Validates MANIFEST.json and every evidence file against the given schemas (needs the tooling venv: python3-vt)."""
import json, sys, glob, jsonschema
ok = True
m = json.load(open('/verif/MANIFEST.json')) if len(sys.argv) < 2 or sys.argv[1] != '--evidence-only' else None
if m is not None:
    jsonschema.validate(m, json.load(open('/root/.vp/MANIFEST.schema.json')))
    print('MANIFEST ok: %d checks, %d not_applicable' % (len(m['checks']), len(m.get('not_applicable', []))))
s = json.load(open('/root/.vp/EVIDENCE.schema.json'))
for p in sorted(glob.glob('/verif/evidence/*.json')):
    try:
        jsonschema.validate(json.load(open(p)), s)
        print('ok', p)
    except Exception as e:
        ok = False
        print('INVALID', p, str(e)[:300])
sys.exit(0 if ok else 1)
