#!/usr/bin/env python3
"""reseed.py [ids...] : re-runs the target-property check (plus extra checks given as id:Cxx,Cyy) of every
seeded change in /verif/seeded against /repo with the change applied; updates meta.json 'recheck'."""
import json, os, subprocess, sys, time, glob
R = os.environ.get('REPO_DIR', '/repo')
V = os.environ.get('VERIF_DIR', '/verif')
ids = sys.argv[1:] or sorted(os.path.basename(os.path.dirname(p)) for p in glob.glob('/verif/seeded/*/meta.json'))
st = subprocess.run(['git', '-C', R, 'status', '--porcelain', '--untracked-files=no'], capture_output=True, text=True).stdout.strip()
assert st == '', R + ' not clean'
bad = []
for sid in ids:
    d = '/verif/seeded/' + sid
    meta = json.load(open(d + '/meta.json'))
    prop = meta['breaks_property']
    try:
        r = subprocess.run(['git', '-C', R, 'apply', d + '/patch.diff'], capture_output=True, text=True)
        assert r.returncode == 0, r.stderr
        t0 = time.time()
        p = subprocess.run(['./check', prop, '--tier', 'quick'], cwd=V, capture_output=True, text=True)
        lines = [l for l in p.stdout.splitlines() if l.startswith('VIOLATION') or l.startswith('MACHINERY') or l.startswith('  ')]
        meta['recheck'] = {'at': time.strftime('%Y-%m-%d %H:%M:%S'), 'check': prop, 'exit': p.returncode, 'wall_s': round(time.time() - t0, 1), 'first_lines': lines[:4]}
        print(sid, prop, 'exit', p.returncode, '%.1fs' % (time.time() - t0), (lines[1].strip()[:160] if len(lines) > 1 else ''))
        if p.returncode != 1:
            bad.append(sid)
    finally:
        subprocess.run(['git', '-C', R, 'checkout', '--', '.'])
    json.dump(meta, open(d + '/meta.json', 'w'), indent=1)
print('NOT-CAUGHT:', bad)
