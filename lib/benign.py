#!/usr/bin/env python3
"""benign.py <name> <diff> [checks] : applies a property-PRESERVING change to a private copy of the
repository, runs the checks (quick) and reports every alarm (exit 1) or machinery error (exit 2).
Results are appended to /verif/seeded/benign/<name>.json."""
import json, os, subprocess, sys, time, shutil
R = os.environ.get('REPO_DIR', '/tmp/vpriv2/repo')
V = os.environ.get('VERIF_DIR', '/tmp/vpriv2/verif')
name, diff = sys.argv[1], sys.argv[2]
checks = sys.argv[3].split(',') if len(sys.argv) > 3 else ['C%02d' % i for i in range(1, 21)]
r = subprocess.run(['git', '-C', R, 'apply', diff], capture_output=True, text=True)
assert r.returncode == 0, r.stderr
res = {}
try:
    for c in checks:
        t0 = time.time()
        p = subprocess.run(['./check', c, '--tier', 'quick'], cwd=V, capture_output=True, text=True)
        lines = [l for l in p.stdout.splitlines() if l.startswith('VIOLATION') or l.startswith('MACHINERY') or l.startswith('  ')]
        res[c] = {'exit': p.returncode, 'wall_s': round(time.time() - t0, 1), 'msg': ' / '.join(x.strip()[:400] for x in lines[:3])}
        if p.returncode != 0:
            print(name, c, 'exit', p.returncode, res[c]['msg'][:300], flush=True)
finally:
    subprocess.run(['git', '-C', R, 'checkout', '--', '.'])
d = '/verif/seeded/benign'
os.makedirs(d, exist_ok=True)
shutil.copy(diff, os.path.join(d, name + '.diff'))
md = diff.replace('.diff', '.md')
json.dump({'name': name, 'what': open(md).read()[:2500] if os.path.exists(md) else '', 'checks': res,
           'alarms': [c for c in checks if res[c]['exit'] == 1], 'machinery': [c for c in checks if res[c]['exit'] == 2]},
          open(os.path.join(d, name + '.json'), 'w'), indent=1)
print(name, 'alarms', [c for c in checks if res[c]['exit'] == 1], 'machinery', [c for c in checks if res[c]['exit'] == 2], flush=True)
