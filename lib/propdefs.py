"""Per-property orchestration for ./check: which engines decide a property,
how their results become evidence, violations and replay files."""
import json, os, subprocess, sys, time

ASSUME_SEQ = [
    "bounded participants: at most k simultaneously live futures / handles / values as listed per configuration; the fixpoint is over the bounded system",
    "sequential explorer: every public call and every poll/drop is one atomic step (all state changes happen inside the primitive's single internal lock, DESIGN.md section 1); late wake-up delivery and real threads are covered by the loom scenarios only",
    "state de-duplication merges two histories only if implementation snapshot (hook), harness slot state and monitor ghost state are equal; slot symmetry is reduced by sorting slot records",
    "harness, monitors and the read-only snapshot hooks in /repo (cfg futures_intrusive_verif) are trusted",
]


class Ctx:
    def __init__(self, root, out, env, tier, seed, run_engine, machinery):
        self.root, self.out, self.env, self.tier, self.seed = root, out, env, tier, seed
        self.run_engine, self.machinery = run_engine, machinery

    def timeout(self):
        return 7200 if self.tier == "thorough" else 240


def load_known(root):
    p = os.path.join(root, "known_findings.json")
    if not os.path.exists(p):
        return []
    with open(p) as f:
        return json.load(f).get("findings", [])


def match_known(known, pid, v):
    for k in known:
        if k.get("status") == "known" and k.get("property") == pid and k.get("signature") == v.get("signature"):
            return k
    return None


# ---------------------------------------------------------------- E-SEQ / E-DS

def run_seq(ctx, pid, extra_args=()):
    out = os.path.join(ctx.out, "%s.%s.seq.json" % (pid, ctx.tier))
    if os.path.exists(out):
        os.remove(out)
    exe = os.path.join(ctx.root, "target", "release", "fiverif")
    cmd = [exe, "run", "--prop", pid, "--tier", ctx.tier, "--out", out] + list(extra_args)
    p, wall = ctx.run_engine(cmd, ctx.timeout(), "fiverif run --prop %s" % pid)
    if p.returncode != 0 or not os.path.exists(out):
        ctx.machinery("fiverif exited with status %s:\n%s" % (p.returncode, "\n".join((p.stderr or "").splitlines()[-25:])))
    with open(out) as f:
        doc = json.load(f)
    return doc, wall


def seq_part(ctx, pid, doc):
    """Turns an engine result document into (coverage dict, violations)."""
    states = sum(r["states"] for r in doc["runs"])
    transitions = sum(r["transitions"] for r in doc["runs"])
    finish = sum(r.get("finish_runs", 0) for r in doc["runs"])
    exhaustive = all(r["fixpoint"] and not r["cap_hit"] for r in doc["runs"])
    viols = []
    for r in doc["runs"]:
        for v in r["violations"]:
            if not v["deterministic"]:
                ctx.machinery("violation of %s in %s did not replay deterministically: %s" % (pid, r["config"], v["message"]))
            viols.append({
                "engine": doc.get("engine", "E-SEQ"),
                "property": pid,
                "config": r["config_json"],
                "history": v["history"],
                "clause": v["clause"],
                "message": v["message"],
                "occurrences": v["occurrences"],
                "signature": "%s|%s|%s" % (r["config_json"]["system"], v["clause"], " ".join(v["history"])),
                "summary": "%s: %s [%s] after %s" % (r["config"], v["message"], v["clause"], " ".join(v["history"])),
            })
    samples = []
    for r in doc["runs"][:6]:
        for s in r["samples"][-2:]:
            if s:
                samples.append({"config": r["config"], "history": s})
    cov = {
        "states": states,
        "transitions": transitions,
        "traces_validated_against_impl": transitions + finish,
        "liveness_closure_runs": finish,
        "exhaustive": exhaustive,
        "distinct_outcomes": sum(r["distinct_outcomes"] for r in doc["runs"]),
        "truncated_by_corruption": sum(r["truncated_by_corruption"] for r in doc["runs"]),
        "configurations": [
            {k: r[k] for k in ("config", "states", "transitions", "depth", "fixpoint", "cap_hit", "distinct_outcomes", "violations_other_properties", "wall_s", "finish_runs")}
            for r in doc["runs"]
        ],
        "samples": samples or [{"note": "initial state only"}],
    }
    return cov, viols


def seq_property(note=None, extra_assumptions=()):
    def f(ctx, pid):
        doc, wall = run_seq(ctx, pid)
        cov, viols = seq_part(ctx, pid, doc)
        cov["summary"] = "states=%d transitions=%d exhaustive=%s" % (cov["states"], cov["transitions"], cov["exhaustive"])
        cov["explanation"] = note or ""
        ev = {"level": "model_checking", "coverage": cov, "assumptions": ASSUME_SEQ + list(extra_assumptions)}
        return ev, viols
    return f


def do_replay(root, env, path, run_engine):
    with open(path) as f:
        doc = json.load(f)
    eng = doc.get("engine", "E-SEQ")
    if eng in ("E-SEQ", "E-DS"):
        exe = os.path.join(root, "target", "release", "fiverif")
        p = subprocess.run([exe, "replay", "--file", path], cwd=root, env=env)
        return p.returncode
    print("replay of engine %s artefacts: see DESIGN.md" % eng)
    return 2


PROPS = {
    "C05": seq_property(),
    "C06": seq_property(),
    "C07": seq_property(),
}
