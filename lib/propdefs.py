"""Per-property orchestration for ./check: which engines decide a property,
how their results become evidence, violations and replay files."""
import json, os, subprocess, sys, time

ASSUME_SEQ = [
    "bounded participants: at most k simultaneously live futures / handles / values as listed per configuration; the fixpoint is over the bounded system",
    "sequential explorer: every public call and every poll/drop is one atomic step (all state changes happen inside the primitive's single internal lock, DESIGN.md section 1); late wake-up delivery and real threads are covered by the loom scenarios only",
    "state de-duplication merges two histories only if implementation snapshot (hook), harness slot state and monitor ghost state are equal; slot symmetry is reduced by sorting slot records",
    "harness, monitors and the read-only snapshot hooks in /repo (cfg futures_intrusive_verif) are trusted",
]


class Ctx:
    def __init__(self, root, out, env, tier, seed, run_engine, machinery):
        self.root, self.out, self.env, self.tier, self.seed = root, out, env, tier, seed
        self.run_engine, self.machinery = run_engine, machinery

    def timeout(self):
        return 7200 if self.tier == "thorough" else 240


def load_known(root):
    p = os.path.join(root, "known_findings.json")
    if not os.path.exists(p):
        return []
    with open(p) as f:
        return json.load(f).get("findings", [])


def match_known(known, pid, v):
    for k in known:
        if k.get("status") != "known" or k.get("property") != pid:
            continue
        if k.get("signature") == v.get("signature") or v.get("signature") in k.get("signatures", []):
            return k
    return None


# ---------------------------------------------------------------- E-SEQ / E-DS

def run_seq(ctx, pid, extra_args=()):
    out = os.path.join(ctx.out, "%s.%s.seq.json" % (pid, ctx.tier))
    if os.path.exists(out):
        os.remove(out)
    exe = os.path.join(ctx.root, "target", "release", "fiverif")
    cmd = [exe, "run", "--prop", pid, "--tier", ctx.tier, "--out", out] + list(extra_args)
    p, wall = ctx.run_engine(cmd, ctx.timeout(), "fiverif run --prop %s" % pid)
    if p.returncode != 0 or not os.path.exists(out):
        so = stack_overflow_doc(p.stderr or "")
        if so:
            return so, wall
        ctx.machinery("fiverif exited with status %s:\n%s" % (p.returncode, "\n".join((p.stderr or "").splitlines()[-25:])))
    with open(out) as f:
        doc = json.load(f)
    return doc, wall


def stack_overflow_doc(stderr):
    """A scripted burst runs on a 256 KiB thread named after what it runs; if library code recursed
    as deep as there are parked futures, Rust aborts the process with "thread '<name>' has overflowed
    its stack". That is a verdict about the library (the harness and the unchanged library are
    iterative there), reported through the same channel as a hang."""
    import re
    m = re.search(r"thread 'script\|(C\d\d)\|([^|]*)\|([^|]*)\|n=(\d+)'(?: \(\d+\))? has overflowed its stack", stderr)
    if not m:
        return None
    prop, label, op, n = m.group(1), m.group(2), m.group(3), m.group(4)
    system = label.split("(")[0]
    params = dict((kv.split("=")[0], int(kv.split("=")[1])) for kv in label[label.index("(") + 1:-1].split(",") if "=" in kv)
    return {"engine": "E-SEQ", "runs": [], "hang": {
        "attributed_to": prop, "config": label, "config_json": {"system": system, "params": params}, "history": [op],
        "message": "a library call overflowed the 256 KiB stack of the script thread with %s parked futures (recursion depth proportional to the number of waiters; the process was aborted)" % n}}


def seq_part(ctx, pid, doc):
    """Turns an engine result document into (coverage dict, violations)."""
    states = sum(r["states"] for r in doc["runs"])
    transitions = sum(r["transitions"] for r in doc["runs"])
    finish = sum(r.get("finish_runs", 0) for r in doc["runs"])
    exhaustive = all(r["fixpoint"] and not r["cap_hit"] for r in doc["runs"])
    viols = []
    if doc.get("hang"):
        h = doc["hang"]
        if h["attributed_to"] != pid:
            ctx.machinery("exploration for %s stopped: %s in %s after history %s (this hang is reported as a violation by ./check %s)" % (pid, h["message"], h["config"], " ".join(h["history"]), h["attributed_to"]))
        viols.append({
            "engine": doc.get("engine", "E-SEQ"), "property": pid, "config": h["config_json"], "history": h["history"], "clause": "hang",
            "message": h["message"], "occurrences": 1,
            "signature": "%s|hang|%s" % (h["config_json"]["system"], " ".join(h["history"])),
            "summary": "%s: %s after %s" % (h["config"], h["message"], " ".join(h["history"])),
        })
        cov = {"states": 1, "transitions": 1, "traces_validated_against_impl": 1, "exhaustive": False, "samples": [{"history": h["history"]}],
               "configurations": [], "distinct_outcomes": 0, "truncated_by_corruption": 0, "liveness_closure_runs": 0,
               "note": "exploration aborted by the hang watchdog"}
        return cov, viols
    for r in doc["runs"]:
        for v in r["violations"]:
            if not v["deterministic"]:
                ctx.machinery("violation of %s in %s did not replay deterministically: %s" % (pid, r["config"], v["message"]))
            viols.append({
                "engine": doc.get("engine", "E-SEQ"),
                "property": pid,
                "config": r["config_json"],
                "history": v["history"],
                "clause": v["clause"],
                "message": v["message"],
                "occurrences": v["occurrences"],
                "signature": "%s|%s|%s" % (r["config_json"]["system"], v["clause"], " ".join(v["history"])),
                "summary": "%s: %s [%s] after %s" % (r["config"], v["message"], v["clause"], " ".join(v["history"])),
            })
    samples = []
    for r in doc["runs"][:6]:
        for s in r["samples"][-2:]:
            if s:
                samples.append({"config": r["config"], "history": s})
    cov = {
        "states": states,
        "transitions": transitions,
        "traces_validated_against_impl": transitions + finish,
        "liveness_closure_runs": finish,
        "exhaustive": exhaustive,
        "distinct_outcomes": sum(r["distinct_outcomes"] for r in doc["runs"]),
        "truncated_by_corruption": sum(r["truncated_by_corruption"] for r in doc["runs"]),
        "truncated_by_other_property": sum(r.get("truncated_by_other_property", 0) for r in doc["runs"]),
        "configurations": [
            {k: r[k] for k in ("config", "states", "transitions", "depth", "fixpoint", "cap_hit", "distinct_outcomes", "violations_other_properties", "wall_s", "finish_runs")}
            for r in doc["runs"]
        ],
        "samples": samples or [{"note": "initial state only"}],
    }
    return cov, viols


def valgrind_part(ctx, pid, tier_name):
    """The same explicit-state search on small configurations under valgrind, with dropped futures
    really freed: any access of the library to a dropped future's memory is an invalid read/write."""
    out = os.path.join(ctx.out, "%s.%s.valgrind.json" % (pid, ctx.tier))
    trace = os.path.join(ctx.out, "%s.%s.valgrind.trace" % (pid, ctx.tier))
    for f in (out, trace):
        if os.path.exists(f):
            os.remove(f)
    exe = os.path.join(ctx.root, "target", "release", "fiverif")
    cmd = ["valgrind", "-q", "--error-exitcode=9", "--exit-on-first-error=yes", "--num-callers=12", exe, "run", "--prop", pid, "--tier", tier_name,
           "--threads", "1", "--free-on-drop", "--hang-secs", "100000", "--trace-file", trace, "--out", out]
    p, wall = ctx.run_engine(cmd, ctx.timeout(), "valgrind fiverif (%s)" % tier_name)
    if p.returncode == 9:
        last = ""
        with open(trace) as f:
            for line in f:
                if line.strip():
                    last = line
        rec = json.loads(last)
        msg = " / ".join(l.split("==")[-1].strip() for l in (p.stderr or "").splitlines()[:6] if "==" in l)[:600]
        v = {"engine": "E-SEQ", "property": pid, "config": rec["config"], "history": rec["history"], "clause": "valgrind-invalid-access",
             "message": "valgrind reported an invalid memory access inside a library call (dropped futures are freed): " + msg, "valgrind": True,
             "signature": "%s|valgrind|%s" % (rec["config"]["system"], " ".join(rec["history"])),
             "summary": "valgrind: invalid access after %s in %s: %s" % (" ".join(rec["history"]), rec["config"]["system"], msg[:200])}
        return {"valgrind_transitions": None, "valgrind_errors": 1, "wall_s": round(wall, 1)}, [v]
    if p.returncode != 0 or not os.path.exists(out):
        ctx.machinery("valgrind run exited with status %s:\n%s" % (p.returncode, "\n".join((p.stderr or "").splitlines()[-25:])))
    with open(out) as f:
        doc = json.load(f)
    cov, viols = seq_part(ctx, pid, doc)
    return {"valgrind_states": cov["states"], "valgrind_transitions": cov["transitions"], "valgrind_errors": 0, "valgrind_exhaustive": cov["exhaustive"],
            "configurations": [c["config"] for c in cov["configurations"]], "wall_s": round(wall, 1)}, viols


def miri_part(ctx, pid):
    """Reduced-bound E-DS enumeration executed by Miri (use-after-free, out-of-bounds, uninitialised reads, invalid drops)."""
    out = os.path.join(ctx.out, "%s.miri.json" % pid)
    if os.path.exists(out):
        os.remove(out)
    env = dict(ctx.env, MIRIFLAGS="-Zmiri-disable-isolation -Zmiri-disable-stacked-borrows -Zmiri-ignore-leaks", CARGO_TARGET_DIR=os.path.join(ctx.root, "target", "miri"))
    cmd = ["cargo", "+nightly", "miri", "run", "--offline", "-q", "-p", "fiverif", "--bin", "fiverif", "--", "run", "--prop", pid, "--tier", "miri", "--threads", "1",
           "--hang-secs", "100000", "--out", out]
    p, wall = ctx.run_engine(cmd, ctx.timeout(), "miri fiverif", env=env)
    err = p.stderr or ""
    if "Undefined Behavior" in err or "error: unsupported operation" in err and False:
        lines = err.splitlines()
        i = next(k for k, l in enumerate(lines) if "Undefined Behavior" in l)
        v = {"engine": "E-DS", "property": pid, "clause": "miri-undefined-behaviour", "message": "Miri: " + " ".join(lines[i:i + 3])[:500], "miri": True,
             "signature": "miri|%s|%s" % (pid, lines[i][:100]), "summary": "Miri reported undefined behaviour: " + lines[i][:300]}
        return {"miri_ub": 1, "wall_s": round(wall, 1)}, [v]
    if p.returncode != 0 or not os.path.exists(out):
        ctx.machinery("miri run exited with status %s:\n%s" % (p.returncode, "\n".join(err.splitlines()[-25:])))
    with open(out) as f:
        doc = json.load(f)
    cov, viols = seq_part(ctx, pid, doc)
    return {"miri_states": cov["states"], "miri_transitions": cov["transitions"], "miri_ub": 0, "configurations": [c["config"] for c in cov["configurations"]], "wall_s": round(wall, 1)}, viols


def seq_property(note=None, extra_assumptions=(), miri=False):
    def f(ctx, pid):
        doc, wall = run_seq(ctx, pid)
        cov, viols = seq_part(ctx, pid, doc)
        if miri and ctx.tier == "thorough" and not viols:
            mcov, mviols = miri_part(ctx, pid)
            cov["miri"] = mcov
            viols += mviols
        cov["summary"] = "states=%d transitions=%d exhaustive=%s" % (cov["states"], cov["transitions"], cov["exhaustive"])
        cov["explanation"] = note or ""
        ev = {"level": "model_checking", "coverage": cov, "assumptions": ASSUME_SEQ + list(extra_assumptions)}
        return ev, viols
    return f


# ---------------------------------------------------------------------- E-LOOM

ASSUME_LOOM = [
    "loom scenarios: 2-3 threads, 1-3 operations each; exhaustive (DPOR) only up to the stated preemption bound per scenario; a duration cap that was hit is reported per scenario",
    "the crate's generic code is instantiated with a RawMutex built on loom::sync::Mutex (every internal lock/unlock is a scheduling point); parking_lot itself, the AtomicUsize handle counters / alloc::sync::Arc of the shared flavours and the timer clock are std objects that loom does not intercept (no weak-memory exploration for them); non-atomic accesses inside the library are not routed through loom::cell, so loom cannot flag a data race inside the library",
]
WAKE_PROPS = {"C03", "C06", "C10", "C11", "C12", "C13", "C14", "C15"}
# Thorough tier, per scenario (measured with the final lock shim, release build, idle machine):
#   UNBOUNDED_OK : unbounded DPOR terminates within seconds (at most ~30 s)      -> bounds 3, none
#   BIG          : bound 3 already takes minutes (or hits the 900 s cap, reported) -> bound 3 only
#   all others   : bound 4 completes within ~2.5 minutes                           -> bounds 3, 4
UNBOUNDED_OK = {"swap_mutex_fair", "swap_mutex_unfair", "swap_sem_fair", "swap_sem_unfair", "swap_event", "swap_mpmc_recv", "swap_mpmc_send",
                "swap_oneshot", "swap_state", "swap_timer", "event_set_vs_reset", "mpmc_last_receiver_clears", "mpmc_refill_race",
                "mpmc_notified_drop_contended", "mutex_notified_drop_contended_fair", "mutex_notified_drop_contended_unfair",
                "sem_notified_drop_contended_fair", "sem_notified_drop_contended_unfair", "state_try_receive_contended", "timer_check_contended",
                "mpmc_transient_clone", "mpmc_receiver_clones", "state_handles_race", "bcast_handles_race", "mpmc_cancel_vs_receive_cap0",
                "mpmc_cancel_vs_receive_cap1", "mpmc_close_vs_send", "oneshot_shared_send_then_drop", "oneshot_shared_drop_only",
                "event_set_vs_abandon", "event_set_vs_abandon_tail", "mpmc_close_vs_abandon",
                "mpmc_close_vs_abandon_rev", "state_send_vs_abandon", "state_send_vs_abandon_rev", "bcast_send_vs_abandon", "bcast_send_vs_abandon_rev",
                "mpmc_orphan_recv", "mpmc_orphan_send", "state_orphan_recv", "bcast_orphan_recv", "oneshot_orphan_recv",
                "mutex_barger_holds_fair", "mutex_barger_holds_unfair", "sem_barger_holds_fair", "sem_barger_holds_unfair", "event_setters_race",
                "timer_expire_vs_complete", "event_set_vs_complete", "alloc_race_timer", "alloc_race_event", "alloc_race_sem",
                "timer_check_vs_first_poll", "oneshot_two_sends_by_ref", "event_many_set_vs_reset", "timer_many_vs_abandon", "mutex_requeue_vs_unlock",
                "mpmc_close_vs_first_send_poll_cap0", "mpmc_close_vs_first_send_poll_cap1",
                "timer_expire_vs_drop", "event_set_vs_drop", "sem_release_vs_drop", "mutex_unlock_vs_drop", "mpmc_send_vs_drop_recv",
                "event_set_vs_first_poll", "mutex_fair_newcomer", "mutex_is_locked_contended", "mpmc_debug_vs_push_exclusive",
                "mpmc_barger_vs_notified", "mpmc_try_send_race_cap1", "mpmc_try_send_race_cap2",
                "state_close_vs_first_recv_poll", "oneshot_close_vs_first_recv_poll", "bcast_close_vs_first_recv_poll", "mpmc_close_vs_first_recv_poll",
                "mutex_is_locked_handover_fair", "mutex_is_locked_handover_unfair"}
BIG = {"mpmc_2p1c_cap0", "mpmc_2p1c_cap1", "mpmc_2p1c_cap0_seq", "mutex_cancel_in_queue_fair", "mutex_cancel_in_queue_unfair", "state_followers"}


def loom_bounds(tier, name):
    if tier == "quick":
        return ["2"]
    if name in UNBOUNDED_OK:
        return ["3", "none"]
    if name in BIG:
        return ["3"]
    return ["3", "4"]


def loom_scenarios(ctx, pid):
    exe = os.path.join(ctx.root, "target", "release", "filoom")
    p = subprocess.run([exe, "list"], cwd=ctx.root, env=ctx.env, stdout=subprocess.PIPE, text=True)
    out = []
    for line in p.stdout.splitlines():
        name, props = line.split()
        thorough_only = props.startswith("thorough:")
        props = props.replace("thorough:", "").split(",")
        if pid in props and (ctx.tier == "thorough" or not thorough_only):
            out.append((name, props))
    return out


def loom_attribution(name, props, msg):
    import re
    explicit = set(re.findall(r"\bC\d\d\b", msg))
    if explicit:
        return explicit
    if "deadlock" in msg:
        return WAKE_PROPS & set(props)
    if "self.can_push()" in msg and set(props) & {"C08", "C09"}:
        # the channel pushed onto a full ring buffer (FixedHeapBuf::push asserts can_push()): more
        # values accepted than the capacity allows (C09), and the value of the panicking send is
        # neither delivered nor handed back (C08)
        return set(props) & {"C08", "C09"}
    if "Causality violation" in msg or "UnsafeCell" in msg:
        if name.endswith("_exclusive") or "_debug_" in name:
            # two threads inside clone() of the same stored payload, or a clone not ordered after
            # the send: the channel is Sync for a payload that is only Send (C16), and a receiver
            # does not get a proper clone (the flavour's delivery property)
            return set(props)
        # the Tracked payload was accessed by two guard holders at once / without happens-before
        return {"C02"} if name.startswith("mutex") else {"C01"}
    return {"C01"}


def loom_scenario(ctx, pid, exe, ldir, name, props):
    """All bounds of one scenario (one single-threaded child process per bound); returns (run records, violations)."""
    runs, viols = [], []
    bounds = loom_bounds(ctx.tier, name)
    for pb in bounds:
        ck = os.path.join(ldir, "%s.pb%s.%s.checkpoint.json" % (name, pb, pid))
        if os.path.exists(ck):
            os.remove(ck)
        cap = "120" if ctx.tier == "quick" else "900"
        cmd = [exe, "run", name, "--pb", pb, "--max-secs", cap]
        p, wall = ctx.run_engine(cmd, int(cap) + 240, "filoom run %s" % name, env=ctx.env)
        if p.returncode != 0:
            # re-run with checkpointing to leave the failing schedule on disk (writing a
            # checkpoint per iteration is slow, so it is only done after a failure)
            env = dict(ctx.env, LOOM_CHECKPOINT_FILE=ck, LOOM_CHECKPOINT_INTERVAL="1")
            p, wall = ctx.run_engine(cmd, 4 * (int(cap) + 240), "filoom run %s (checkpointing)" % name, env=env)
        ok = [l for l in p.stdout.splitlines() if l.startswith("LOOM-OK")]
        if p.returncode == 0 and ok:
            f = dict(kv.split("=") for kv in ok[0].split()[1:])
            runs.append({"scenario": name, "preemption_bound": pb, "schedules": int(f["schedules"]), "wall_s": float(f["wall_s"]), "duration_cap_hit": f["duration_cap_hit"] == "true", "result": "ok"})
            if os.path.exists(ck):
                os.remove(ck)
            continue
        err = p.stderr or ""
        lines = err.splitlines()
        msg = ""
        for i, l in enumerate(lines):
            if "panicked at" in l and i + 1 < len(lines):
                msg = lines[i + 1].strip()
                break
        if not msg or msg.startswith("MACHINERY"):
            ctx.machinery("filoom run %s exited with status %s without a loom failure message:\n%s" % (name, p.returncode, "\n".join(lines[-15:])))
        who = loom_attribution(name, props, msg)
        if "deadlock" in msg and name.startswith("sem_") and "C06" in who:
            # a semaphore scenario can also deadlock because permits were lost (C05), in which
            # case no wake-up is missing: if the non-blocking conservation scenario fails too,
            # the deadlock is attributed to C05
            p2, _ = ctx.run_engine([exe, "run", "sem_try_conserve", "--pb", pb, "--max-secs", cap], int(cap) + 240, "filoom run sem_try_conserve", env=ctx.env)
            if p2.returncode != 0:
                who = (who - {"C06"}) | {"C05"}
                msg = msg + " [permits are not conserved (scenario sem_try_conserve fails): attributed to C05]"
        runs.append({"scenario": name, "preemption_bound": pb, "schedules": None, "wall_s": round(wall, 2), "result": "FAILED: " + msg[:300], "attributed_to": sorted(who)})
        if pid in who:
            viols.append({"engine": "E-LOOM", "property": pid, "scenario": name, "preemption_bound": pb, "checkpoint_file": ck, "message": msg[:600],
                          "signature": "loom|%s|%s" % (name, msg[:80]),
                          "replay_hint": "LOOM_CHECKPOINT_FILE=%s %s run %s --pb %s   (replays exactly the failing schedule)" % (ck, exe, name, pb),
                          "summary": "loom scenario %s (preemption bound %s): %s" % (name, pb, msg[:300])})
        break
    return runs, viols


def loom_part(ctx, pid):
    """The loom scenarios of a property; every scenario is explored by its own single-threaded child
    process, up to LOOM_JOBS of them at a time."""
    from concurrent.futures import ThreadPoolExecutor
    exe = os.path.join(ctx.root, "target", "release", "filoom")
    ldir = os.path.join(ctx.out, "loom")
    os.makedirs(ldir, exist_ok=True)
    scen = loom_scenarios(ctx, pid)
    jobs = int(os.environ.get("LOOM_JOBS", "0") or 0) or max(1, min(12, (os.cpu_count() or 2) - 2))
    runs, viols = [], []
    with ThreadPoolExecutor(max_workers=jobs) as ex:
        futs = [ex.submit(loom_scenario, ctx, pid, exe, ldir, name, props) for name, props in scen]
        for f in futs:
            r, v = f.result()
            runs += r
            viols += v
    cov = {"scenarios": runs, "schedules": sum(r["schedules"] or 0 for r in runs), "parallel_jobs": jobs}
    return cov, viols


def seq_loom_property(note=None, valgrind=False):
    def f(ctx, pid):
        # the three engines are independent child processes: the loom scenarios (single-threaded
        # children) and the valgrind pass run while the 16-thread explorer works
        from concurrent.futures import ThreadPoolExecutor
        with ThreadPoolExecutor(max_workers=2) as ex:
            lf = ex.submit(loom_part, ctx, pid)
            vf = ex.submit(valgrind_part, ctx, pid, "valgrind" if ctx.tier == "quick" else "valgrind-big") if valgrind else None
            doc, wall = run_seq(ctx, pid)
            cov, viols = seq_part(ctx, pid, doc)
            if vf is not None:
                try:
                    vcov, vviols = vf.result()
                except SystemExit:
                    # a valgrind child that could not finish is only a machinery problem if the
                    # explorer found nothing: memory corruption behind a reported violation
                    # legitimately derails it
                    if not viols:
                        raise
                    vcov, vviols = {"skipped": "explorer reported violations"}, []
                if not viols:
                    cov["valgrind"] = vcov
                    viols += vviols
            lcov, lviols = lf.result()
        cov["loom"] = lcov
        cov["traces_validated_against_impl"] += lcov["schedules"]
        cov["summary"] = "states=%d transitions=%d exhaustive=%s loom_schedules=%d (%d scenarios)" % (cov["states"], cov["transitions"], cov["exhaustive"], lcov["schedules"], len(lcov["scenarios"]))
        cov["explanation"] = note or ""
        ev = {"level": "model_checking", "coverage": cov, "assumptions": ASSUME_SEQ + ASSUME_LOOM}
        return ev, viols + lviols
    return f


# ---------------------------------------------------------------------- E-TYPE

def run_typematrix(ctx_root, env):
    exe = os.path.join(ctx_root, "target", "release", "typematrix")
    p = subprocess.run([exe], cwd=ctx_root, env=env, stdout=subprocess.PIPE, stderr=subprocess.PIPE, text=True, timeout=120)
    if p.returncode != 0:
        return None, p.stderr
    return p.stdout, ""


def type_property(ctx, pid):
    import typerules
    t0 = time.time()
    out, err = run_typematrix(ctx.root, ctx.env)
    if out is None:
        ctx.machinery("typematrix failed: " + err[-2000:])
    cells, pairs = typerules.parse(out)
    if len(cells) < 400 or len(pairs) < 300:
        ctx.machinery("typematrix printed only %d cells / %d pairs" % (len(cells), len(pairs)))
    viol, info, verdict_cells, applied = typerules.evaluate(cells, pairs)
    with open(os.path.join(ctx.out, "C16.matrix.txt"), "w") as f:
        f.write(out)
    viols = []
    for v in viol:
        viols.append({"engine": "E-TYPE", "property": pid, "signature": v["signature"], "message": v["message"], "summary": v["message"] + " [" + v["signature"] + "]"})
    n_true = sum(1 for c in cells for k in ("send", "sync", "unpin") if c[k])
    cov = {
        "explanation": "Exhaustive enumeration of the abstract type-configuration space: for every public primitive / future / guard / releaser / handle / stream type constructor and every combination of witness parameters (lock class x payload class x buffer class, one witness per (Send,Sync) class) one program compiled against the current /repo evaluates Send, Sync and Unpin; additionally for every method that returns a borrowing or Arc-sharing future/guard/stream the pair (result: Send, receiver: Sync|Send). The rule table lib/typerules.py (must-be-false / must-be-true / borrowing implication) is evaluated on every cell. The evaluator of a cell is the Rust trait solver, not an execution: this is the edge of the model-checking family (exhaustive finite enumeration with a mechanical oracle), labelled 'other' for that reason.",
        "evaluations": 3 * len(cells) + len(pairs),
        "distinct_nontrivial": verdict_cells,
        "rule": "one cell per (type constructor, lock witness, payload witness, buffer witness, trait); verdict cells are those whose lock witness is NoopLock (local flavour) or parking_lot::RawMutex (thread-safe flavour); cells with the synthetic (Send,!Sync)/(!Send,Sync) lock witnesses are computed and reported as informational only",
        "type_cells": len(cells),
        "method_pairs": len(pairs),
        "rule_applications": applied,
        "facts_true": n_true,
        "informational_cells_flagged": [i["signature"] for i in info],
        "exhaustive": True,
        "samples": [dict(c) for c in cells[40:44]] + [dict(p) for p in pairs[100:103]],
        "summary": "cells=%d pairs=%d verdict_cells=%d rule_applications=%d" % (len(cells), len(pairs), verdict_cells, applied),
        "wall_typematrix_s": round(time.time() - t0, 2),
    }
    # semantic side of "Sync although the payload is only Send": the channel's own accesses to a
    # stored payload are exclusive (loom scenarios *_clone_exclusive)
    lcov, lviols = loom_part(ctx, pid)
    cov["loom"] = lcov
    cov["summary"] += " loom_schedules=%d (%d scenarios)" % (lcov["schedules"], len(lcov["scenarios"]))
    viols += lviols
    ev = {"level": "other", "coverage": cov, "assumptions": ASSUME_LOOM + [
        "every hand-written Send/Sync impl of the crate is parametric with marker-trait bounds only, so the verdict for any instantiation depends only on the (Send,Sync) class of each parameter (checked by reading the impls; a specialised impl for a concrete type would escape the matrix)",
        "the witness types are representative of their class: i32 (Send+Sync), Cell<i32> (Send), Rc<i32> (neither), a PhantomData<*mut ()> newtype with unsafe Sync (!Send+Sync); RcBuf is a safe custom RingBuf holding an Rc",
        "rule table lib/typerules.py is the oracle and is trusted; rustc's trait solver is trusted",
    ]}
    return ev, viols


def do_replay(root, env, path, run_engine):
    with open(path) as f:
        doc = json.load(f)
    eng = doc.get("engine", "E-SEQ")
    if eng in ("E-SEQ", "E-DS"):
        exe = os.path.join(root, "target", "release", "fiverif")
        if doc.get("valgrind"):
            p = subprocess.run(["valgrind", "-q", "--error-exitcode=9", "--exit-on-first-error=yes", exe, "replay", "--file", path, "--free-on-drop", "--hang-secs", "100000"], cwd=root, env=env)
            if p.returncode == 9:
                print("replay: valgrind reports the invalid access again")
                return 1
            return p.returncode
        p = subprocess.run([exe, "replay", "--file", path], cwd=root, env=env, stderr=subprocess.PIPE, text=True)
        sys.stderr.write(p.stderr or "")
        if p.returncode not in (0, 1) and stack_overflow_doc(p.stderr or ""):
            print("replay: violation reproduced (the library call overflows the stack of the script thread again)")
            return 1
        return p.returncode
    if eng == "E-LOOM":
        exe = os.path.join(root, "target", "release", "filoom")
        e2 = dict(env, LOOM_CHECKPOINT_FILE=doc["checkpoint_file"])
        p = subprocess.run([exe, "run", doc["scenario"], "--pb", doc["preemption_bound"]], cwd=root, env=e2, stdout=subprocess.PIPE, stderr=subprocess.PIPE, text=True)
        if p.returncode == 0:
            print("replay: the recorded schedule no longer fails")
            return 0
        for l in (p.stderr or "").splitlines():
            if "panicked at" in l or "deadlock" in l or "C0" in l or "C1" in l:
                print(l[:300])
        print("replay: violation reproduced (loom scenario %s)" % doc["scenario"])
        return 1
    if eng == "E-TYPE":
        import typerules
        out, err = run_typematrix(root, env)
        if out is None:
            print("typematrix failed: " + err)
            return 2
        cells, pairs = typerules.parse(out)
        viol, _, _, _ = typerules.evaluate(cells, pairs)
        hit = [v for v in viol if v["signature"] == doc["signature"]]
        for v in hit:
            print("VIOLATION reproduced: " + v["message"])
        if not hit:
            print("replay: cell %s no longer violates the rule table" % doc["signature"])
        return 1 if hit else 0
    print("replay of engine %s artefacts: see DESIGN.md" % eng)
    return 2


PROPS = {
    "C01": seq_loom_property(valgrind=True),
    "C02": seq_loom_property(),
    "C03": seq_loom_property(),
    "C04": seq_loom_property(),
    "C05": seq_loom_property(),
    "C06": seq_loom_property(),
    "C07": seq_loom_property(),
    "C08": seq_loom_property(),
    "C09": seq_loom_property(),
    "C10": seq_loom_property(),
    "C11": seq_loom_property(),
    "C12": seq_loom_property(),
    "C13": seq_loom_property(),
    "C14": seq_loom_property(),
    "C15": seq_loom_property(),
    "C16": type_property,
    "C17": seq_loom_property(),
    "C18": seq_loom_property(),
    "C19": seq_property(miri=True),
    "C20": seq_property(miri=True),
}
