#!/usr/bin/env python3
"""matrix.py : full detection matrix (every seeded change x every check, quick tier) on a private copy
of /verif and a private worktree of the repository, so that /repo and /verif stay untouched.
Results: $MATRIX_DIR/matrix.json (default /tmp/vmatrix/matrix.json)."""
import json, os, subprocess, sys, time, glob, shutil
D = os.environ.get('MATRIX_DIR', '/tmp/vmatrix')
V, R = D + '/verif', D + '/repo'
os.makedirs(D, exist_ok=True)
if not os.path.exists(R):
    subprocess.run(['git', '-C', '/repo', 'worktree', 'add', '--detach', R, 'HEAD'], check=True)
    shutil.copy('/repo/Cargo.lock', R)
subprocess.run(['git', '-C', R, 'checkout', '-q', '--detach', subprocess.run(['git', '-C', '/repo', 'rev-parse', 'HEAD'], capture_output=True, text=True).stdout.strip()], check=True)
subprocess.run(['git', '-C', R, 'checkout', '--', '.'], check=True)
if os.path.exists(V):
    for e in os.listdir(V):
        if e != 'target':
            p = os.path.join(V, e)
            shutil.rmtree(p) if os.path.isdir(p) else os.remove(p)
os.makedirs(V, exist_ok=True)
subprocess.run('cd /verif && git ls-files -z | xargs -0 -I{} cp --parents {} %s/' % V, shell=True, check=True)
shutil.copytree('/verif/.cargo', V + '/.cargo', dirs_exist_ok=True)
for f in ('engine/Cargo.toml', 'loomengine/Cargo.toml'):
    t = open(os.path.join(V, f)).read().replace('path = "/repo"', 'path = "%s"' % R)
    open(os.path.join(V, f), 'w').write(t)
ids = sorted(os.path.basename(os.path.dirname(p)) for p in glob.glob('/verif/seeded/*/meta.json'))
if len(sys.argv) > 1:
    ids = sys.argv[1:]
checks = ['C%02d' % i for i in range(1, 21)]
res = {}
out = D + '/matrix.json'
if os.path.exists(out):
    res = json.load(open(out))
for sid in ids:
    patch = '/verif/seeded/%s/patch.diff' % sid
    r = subprocess.run(['git', '-C', R, 'apply', patch], capture_output=True, text=True)
    assert r.returncode == 0, r.stderr
    row = {}
    try:
        for c in checks:
            t0 = time.time()
            p = subprocess.run(['./check', c, '--tier', 'quick'], cwd=V, capture_output=True, text=True)
            lines = [l for l in p.stdout.splitlines() if l.startswith('VIOLATION') or l.startswith('MACHINERY') or l.startswith('  ')]
            row[c] = {'exit': p.returncode, 'wall_s': round(time.time() - t0, 1), 'msg': (lines[1].strip()[:300] if len(lines) > 1 else (lines[0][:300] if lines else ''))}
    finally:
        subprocess.run(['git', '-C', R, 'checkout', '--', '.'])
    res[sid] = row
    json.dump(res, open(out, 'w'), indent=1)
    print(sid, 'caught by', [c for c in checks if row[c]['exit'] == 1], 'machinery', [c for c in checks if row[c]['exit'] == 2], flush=True)
print('MATRIX-DONE')
