#!/usr/bin/env python3
"""mkdesign.py : (re)generates sections 10-13 of DESIGN.md from lib/design_sections.md and the detection
results in seeded/*/meta.json (+ /tmp/vmatrix/matrix.json if present)."""
import glob, json, os, re
BEGIN, END = '<!-- BEGIN GENERATED SECTIONS 10-13 (lib/mkdesign.py) -->', '<!-- END GENERATED SECTIONS -->'
d = open('/verif/DESIGN.md').read()
sec = open('/verif/lib/design_sections.md').read()
matrix = {}
if os.path.exists('/tmp/vmatrix/matrix.json'):
    matrix = json.load(open('/tmp/vmatrix/matrix.json'))
rows = ['| change | target | what was changed | targeted check (final) | also reported by |', '|---|---|---|---|---|']
DESC = {
 "C01-m1": "unfair semaphore: a Waiting future that acquires on re-poll calls the no-op remove path and stays linked after completion",
 "C01-m2": "timer: re-poll after the deadline (before check_expirations) completes the future without unlinking it from the heap",
 "C02-m1": "mutex: is_locked cleared in return_last_waiter, so dropping a notified future clears it while a barger holds the guard (unfair)",
 "C02-m2": "mutex: fair Notified branch locks without checking is_locked + cancelling a Waiting future notifies the next (two sites, each harmless alone)",
 "C03-m1": "fair mutex: waker not refreshed when a Waiting future is re-polled while the mutex is free",
 "C03-m2": "unfair mutex: dropping a notified future only wakes the next waiter without marking it Notified; a second cancellation loses the wake-up (3 waiters)",
 "C04-m1": "fair mutex: re-poll with a different waker re-queues the waiter at the newest end",
 "C04-m2": "fair mutex: dropping the notified oldest waiter notifies the newest instead of the next-oldest (3 waiters)",
 "C05-m1": "unfair semaphore: dropping a notified (not yet acquired) future releases its permits (mints permits)",
 "C05-m2": "releaser Drop uses try_lock and loses the permits when the lock is busy (threads only)",
 "C06-m1": "dropping a notified future re-runs the wake-up pass only if its own request still fits (barging try_acquire in between)",
 "C06-m2": "notified waiter that must wait again keeps its old waker if one is stored (waker swap at the re-queueing poll)",
 "C07-m1": "fair semaphore: a Waiting future acquires on re-poll when permits suffice and the head is not yet notified (overtakes a larger head)",
 "C07-m2": "fair semaphore: try_acquire(0)/acquire(0) refused while the head waiter is Notified",
 "C08-m1": "ArrayBuf::drop leaks the wrapped part of a full, rotated buffer",
 "C08-m2": "cancel() of a send future that is not queued (never polled, or woken by close) returns None and keeps the value",
 "C09-m1": "parked sender re-polled with a different waker is moved to the newest end of the sender queue",
 "C09-m2": "a notified receiver pops the buffer without refilling it from the oldest parked sender (later send overtakes)",
 "C10-m1": "dropped notified receiver forwards the wake-up only if the buffer is non-empty (capacity 0: value sits in a parked sender)",
 "C10-m2": "a send future that parks on a full buffered channel no longer wakes a receiver",
 "C11-m1": "mpmc close() drains only one of the two wait queues (capacity 0, parked sender + second parked receiver)",
 "C11-m2": "state broadcast: sender drop decrements the receivers counter (asymmetric handle counts)",
 "C12-m1": "oneshot: a second send is accepted while the first value has not been taken yet",
 "C12-m2": "oneshot broadcast: waker not refreshed when a registered receiver is re-polled with a different waker",
 "C13-m1": "state broadcast: a send rejected on a closed channel still consumes a StateId",
 "C13-m2": "state broadcast: try_receive returns None on a closed channel although a newer state is stored",
 "C14-m1": "event: a waiter woken by set() re-checks is_set and waits again after a reset()",
 "C14-m2": "event: wait() samples is_set at creation; created-while-set futures complete after a reset",
 "C15-m1": "timer: the first poll compares against a clock value cached at the last check_expirations()",
 "C15-m2": "timer: delay() truncates the millisecond count to u64 instead of saturating (needs >= 2^64 ms, not Duration::MAX)",
 "C16-m1": "GenericChannel: Sync without the buffer type being Send (revert of fix D4)",
 "C16-m2": "impl Unpin for shared::ChannelSendFuture",
 "C17-m1": "send-future cancel() leaves the handle set (is_terminated false, re-poll possible) unless the future is queued",
 "C17-m2": "ChannelStream ends as soon as the channel is closed and the stream is idle, although values are buffered",
 "C18-m1": "mpmc close() collects wakers into a Vec when more than 4 waiters are woken",
 "C18-m2": "FixedHeapBuf pre-allocates capacity-1 and reallocates when it becomes full",
 "C19-m1": "ArrayBuf::drop leaks the wrapped part of a full, rotated buffer",
 "C19-m2": "GrowingHeapBuf::capacity() reports the VecDeque capacity once it exceeds the limit",
 "C20-m1": "pairing heap: removing a non-root node whose key equals the minimum replaces the root with that node's children (duplicates)",
 "C20-m2": "pairing heap: merge_children loop runs at most once (node with >= 5 children loses children)",
 "T1-m1": "threads: mutex try_lock checks in one critical section and sets is_locked in a second one (two guards)",
 "T1-m2": "threads: lock-future Drop reads the poll state before taking the lock and discards the waker returned for a Waiting node",
 "T2-m1": "threads: semaphore release() reads the count in one critical section and stores the sum in a second one (lost update)",
 "T2-m2": "threads: acquire-future poll uses try_lock; busy + Waiting returns Pending without refreshing the waker",
 "T3-m1": "threads: mpmc receive pops under one lock and refills from the oldest parked sender under a second lock (a try_send overtakes)",
 "T3-m2": "threads: receive-future Drop reads the state unlocked and uses try_lock; busy = wake-up not forwarded",
 "T4-m1": "threads: last mpmc receiver clears the buffer behind try_lock (skipped when a sender is inside try_send)",
 "T4-m2": "threads: state sender Drop does load + store instead of fetch_sub on the sender counter",
 "T5-m1": "threads: event set() in two critical sections; the wake-up is skipped if reset() ran in between",
 "T5-m2": "threads: state try_receive uses try_lock and reports 'nothing newer' when the lock is busy",
 "T6-m1": "threads: timer check_expirations() uses try_lock and returns when busy",
 "T6-m2": "threads: timer releases its lock around wake() between marking a timer expired and unlinking it",
 "S1-m1": "unfair mutex: a notified waiter that finds the lock stolen is re-queued still tagged Notified (double insert / dangling on drop)",
 "S1-m2": "threads: send-future cancel() takes the value before unlinking under the lock (a receiver finds a queued sender without value)",
 "S1-m3": "mpmc: a notified receiver that finds the channel empty again yields None instead of re-registering (stream ends on an open channel)",
 "S2-m1": "a send future that parks on a full buffered channel no longer wakes a receiver (needs cap+1 receivers, cap+1 sends)",
 "S2-m2": "ArrayBuf::drop leaks the wrapped part of a full, rotated buffer",
 "S2-m3": "last mpmc receiver skips close()/clear() if no sender handle is left (a future outliving all handles still receives)",
 "R1-m1": "explicit `Sync for GenericMutexGuard where T: Sync` impl deleted (auto trait makes the guard Sync for T: Send + !Sync)",
 "R1-m2": "GenericSharedSemaphore: Send for a lock that is Send but not Sync",
 "R1-m3": "impl Unpin for shared::ChannelSendFuture",
 "R2-m1": "timer check_expirations collects wakers into a Vec when more than 8 timers expire in one call",
 "R2-m2": "SharedStream boxes its pending receive future (one allocation per item)",
 "R2-m3": "shared acquire-future Drop collects the wakers it unblocks into a Vec",
 "R3-m1": "list: drain() no longer resets tail",
 "R3-m2": "list: remove() of a non-member from an EMPTY list falls through into the unlink code",
 "R3-m3": "list: reverse_drain() leaves stale next links on drained nodes",
 "R4-m1": "shared oneshot broadcast: dropping the last receiver handle also clears the stored value (outstanding futures get None)",
 "R4-m2": "state broadcast: try_receive returns None once the channel is closed",
 "R4-m3": "timer check_expirations wakes at most 32 timers per call",
 "A1-m1": "mutex: first poll of a lock future checks and enqueues in two critical sections (threads only)",
 "A1-m2": "mutex: new private 'notified_waiters' counter suppresses wake-ups and leaks when the only notified waiter is dropped (hidden state)",
 "A1-m3": "event: set() detaches the waiter list under the lock and wakes the waiters after unlocking (threads only)",
 "A2-m1": "semaphore: a cancelled *waiting* request skips the wake-up pass when its own request would fit (unfair, 3 futures)",
 "A2-m2": "semaphore: release() fast path on a cached 'request of the oldest waiter' that one path forgets to refresh (hidden state)",
 "A2-m3": "semaphore: first poll of an acquire future checks and registers in two critical sections (threads only)",
 "A3-m1": "mpmc: receive poll split into 'try to receive' and 'register' critical sections (threads only)",
 "A3-m2": "mpmc: try_send skips the receiver wake-up when the buffer was already non-empty",
 "A3-m3": "mpmc: close() detaches both wait queues under the lock and wakes them after unlocking (threads only)",
 "A4-m1": "mpmc: implicit close by the last shared Sender no longer wakes parked send futures",
 "A4-m2": "mpmc: last shared Receiver skips discarding the buffer when the channel was already closed",
 "A4-m3": "mpmc: lock-free 'already closed' flag published before the channel is closed under its lock (threads only, handle-counter hook)",
 "A5-m1": "state broadcast: shared receive future reports is_terminated()==false after completing with None",
 "A5-m2": "oneshot broadcast: last receiver handle does not close the channel while a receive future is pending",
 "A5-m3": "state broadcast: send() detaches the waiter list and wakes after releasing the lock (threads only)",
 "A6-m1": "timer: Clock::now() is read before the timer lock is taken (threads only)",
 "A6-m2": "timer: deadlines ordered by signed wrapping distance",
 "A6-m3": "ArrayBuf: index wrap-around via mask for backing arrays with more than 64 elements (breaks user RealArray of 96 / 384 elements)",
 "B1-m1": "mutex: waker refresh of an already queued waiter moved behind the unlock (threads only)",
 "B1-m2": "mutex: saturating u16 queue-length counter replaces the list checks (needs > 65535 simultaneously pending lock futures)",
 "B1-m3": "mutex: guard Drop suppresses the wake-up if somebody re-locked the mutex in the meantime (threads only, unfair)",
 "B2-m1": "semaphore: lock-free permits() from an atomic mirror that is published after the critical section (threads only)",
 "B2-m2": "shared semaphore: releaser Drop skips the wake-up pass when Arc::strong_count <= 2 (all user handles dropped, futures live on)",
 "B2-m3": "semaphore: waker refresh of a still-queued future moved into a second critical section (threads only)",
 "B3-m1": "mpmc: receive poll stores the waker after the channel lock has been released (threads only)",
 "B3-m2": "mpmc: close() visits the receive queue only if the buffer is empty",
 "B3-m3": "mpmc: last sender / last receiver each skip close() if the other side's counter is already 0 (Dekker race on the two handle counters)",
 "B4-m1": "event: lock-free fast path for redundant set()/reset() through an AtomicBool hint stored after the unlock (threads only)",
 "B4-m2": "state broadcast: last sender / last receiver each skip close() if the other counter is 0 (Dekker race)",
 "B4-m3": "shared oneshot: dropping the receiver handle only marks the channel closed, pending receive futures are not woken",
 "B5-m1": "timer: `impl Timer` for services whose lock is Send instead of Sync (hands out Send futures of a !Sync service)",
 "B5-m2": "mpmc: clear() replaces the ring buffer instead of popping it empty (one allocation + free in the last receiver's drop)",
 "B5-m3": "oneshot broadcast: the stored value is cloned after the channel lock was released (two threads inside T::clone of a Send + !Sync payload)",
 "B6-m1": "timer: re-poll of a registered future refreshes the waker without taking the timer lock (threads only)",
 "B6-m2": "pairing heap: 'insertion hint' in a new private field that goes stale on one removal path (hidden state, 9 operations, duplicates)",
 "B6-m3": "timer: lock-free next_expiration() through an AtomicU64 whose 'none' sentinel collides with deadline u64::MAX",
 "D1-m1": "timer: poll returns Ready without the timer lock when its own node already says Expired (threads only: the service still unlinks the node)",
 "D1-m2": "mpmc SharedStream: look-ahead field, a woken stream fetches the next item too (a second receiver gets a later value)",
 "D1-m3": "state broadcast: send() wakes and dequeues only waiters whose id is below the new one (needs a StateId from another channel that is ahead)",
 "D2-m1": "shared semaphore: try_acquire / release / permits skip the internal lock while Arc::strong_count == 1 (two threads sharing one handle by reference race unlocked)",
 "D2-m2": "fair semaphore: try_acquire_sync checks 'oldest waiter not Notified' instead of 'no waiters' (a small request overtakes a larger head)",
 "D2-m3": "semaphore: required_permits narrowed to u32 (acquire(2^32+2) completes with 5 permits)",
 "D3-m1": "mpmc: lock-free 'parked senders' counter bumped after the unlock lets a receive skip the refill (judged NOT a violation: the reordered try_send overlaps the first poll of the parked send)",
 "D3-m2": "ArrayBuf::drop: fast path on size_of::<A>() == 0 also skips zero-sized elements that implement Drop",
 "D3-m3": "FixedHeapBuf: capacity()/can_push() from VecDeque::capacity() (usize::MAX for a zero-sized payload: channel becomes unbounded)",
 "D4-m1": "mpmc: last receiver runs clear() before close() (a send in between is accepted and stays buffered; threads only)",
 "D4-m2": "state broadcast: ids compared with != instead of < (a StateId that is ahead of the channel completes with an older state)",
 "D4-m3": "mpmc SharedStream: dropping a stream that is waiting for an item closes the channel",
 "D5-m1": "ArrayBuf::drop: pointer-range loop never runs for zero-sized elements (ZST with Drop is leaked)",
 "D5-m2": "pairing heap: merge_children rewritten recursively (stack depth = half the number of children; 40 000+ timers overflow the stack)",
 "D5-m3": "timer: check_expirations wakes outside the lock with a scratch Vec taken out of the state (a concurrent call allocates; threads only)",
 "D6-m1": "timer: delay() converts the Duration through f64 (about 4 % of whole-millisecond delays >= 1001 ms fire 1 ms early)",
 "D6-m2": "event: set() wakes in batches of 16, re-taking the lock per batch (threads + >= 17 waiters: a waiter registered after a reset is completed)",
 "D6-m3": "mutex: Debug prints the payload without holding the async mutex when is_locked() is false (threads only)",
 "E1-m1": "mutex: a guard dropped while its holder unwinds from a panic does not wake the next waiter (std::thread::panicking())",
 "E1-m2": "event: hidden waiter counter that is decremented twice when a woken-but-never-repolled future is dropped; set() returns early at 0",
 "E1-m3": "unfair mutex: a notified waiter that lost to a barger re-queues in a second critical section without re-checking is_locked (threads only)",
 "E2-m1": "semaphore: releaser Drop uses try_lock and parks its permits in an atomic when busy; folded in later without a wake-up pass (threads only)",
 "E2-m2": "semaphore: cancelling a waiting request runs the wake-up pass only if it was the 'head', where head is taken from the wrong end of the queue",
 "E2-m3": "unfair semaphore: a notified request with too few permits is re-dispatched through the first-poll path, which skips the wake-up pass",
 "E3-m1": "mpmc: waker refresh compares only the data pointer (wakers that share the data pointer and differ in the vtable are never refreshed)",
 "E3-m2": "mpmc: try_receive fast path reads two lock-free hint flags in the wrong order (torn read: Closed while a value is buffered; threads only)",
 "E3-m3": "mpmc: first poll of a send future clones the waker outside the lock and re-validates only the capacity, not is_closed (threads only)",
 "E4-m1": "state broadcast: try_receive fast path on a 'latest id' atomic that send() stores after the unlock (two sender clones; threads only)",
 "E4-m2": "mpmc SharedStream::close(): discards the buffer when the stream holds the only receiver handle",
 "E4-m3": "shared oneshot: send() swaps a private 'used' flag before taking the lock (a second thread's send is rejected while the channel is still open and empty)",
 "E5-m1": "timer: check_expirations() peeks at the heap root without the lock and returns if it looks empty (threads only; the window is inside another thread's critical section)",
 "E5-m2": "timer + heap: expired timers are drained in one batch in tree order instead of deadline order",
 "E5-m3": "timer: check_expirations() stops after a 2 ms 'time budget' measured with the service clock (needs a clock that advances during the call)",
 "E6-m1": "ArrayBuf::capacity() computed as size_of::<A>() / size_of::<T>() (wrong for a user RealArray with an alignment attribute)",
 "E6-m2": "FixedHeapBuf::with_capacity reserves at most 1 MiB up front (larger buffers reallocate inside send)",
 "E6-m3": "mpmc: try_receive peeks at the buffer without the lock (data race on a Send + !Sync user RingBuf; threads only)",
 "F1-m1": "borrowed channel futures take() their channel reference during poll (needs a waker whose clone() panics: outside the properties, not counted)",
 "F1-m2": "timer: future Drop skips the timer lock unless its node says Registered (threads only: the service is still inside wake())",
 "F1-m3": "timer: a timer with deadline u64::MAX (what delay(Duration::MAX) saturates to) is marked Registered but not inserted into the heap",
 "F2-m1": "fair mutex: a new lock future spins up to 32 times, releasing the internal lock in between, and takes the mutex without checking the queue (threads only)",
 "F2-m2": "fair semaphore: saturating sum of queued request sizes replaces waiters.is_empty() (stale 0 once requests summing above usize::MAX were queued)",
 "F2-m3": "mutex: is_locked() uses try_lock on the internal lock and answers true when it is busy (threads only)",
 "F3-m1": "mpmc: the wake-up of an already notified receiver is re-validated in a second critical section and dropped if a barger took the value (threads only)",
 "F3-m2": "ArrayBuf::clear() advances its indices after drop_in_place (needs a payload whose Drop panics: outside the properties, not counted)",
 "F3-m3": "mpmc: return_oldest_receive_waiter clones the waker instead of taking it, and a re-registration keeps a stored waker",
 "F4-m1": "state broadcast: send() reserves the StateId from an atomic before taking the lock (two sender clones: two states under one id)",
 "F4-m2": "shared receive futures hold a Weak instead of an Arc (a future that outlives all handles yields None instead of the accepted value)",
 "F4-m3": "mpmc shared handles: hand-written clone_from() re-points the handle without decrementing the old channel's counter",
 "F5-m1": "timer: delay() samples the clock at the first poll instead of at the call",
 "F5-m2": "event: first poll checks is_set, clones the waker outside the lock and enqueues in a second critical section without re-checking (threads only)",
 "F5-m3": "timer: future Drop reads 'registered' without the lock and remove_waiter unlinks unconditionally (double unlink loses the other timers; threads only)",
 "F6-m1": "ArrayBuf keeps size / indices in u16 (wrong only for [T; 65536])",
 "F6-m2": "ChannelStream: explicit unsafe impl Send that forgets A: Send (stream over a !Send user RingBuf is Send)",
 "F6-m3": "mpmc: Debug for GenericChannel reads the buffer through data_ptr() without the lock (threads only)",
}

def first_sentence(meta):
    t = meta.get('needs_to_manifest', '')
    t = re.sub(r'[#*`]', '', t)
    lines = [l.strip() for l in t.splitlines() if l.strip()]
    cand = [l for l in lines if re.search(r'(need|manifest|trigger|interleav|sequence|only)', l, re.I)]
    x = (cand[0] if cand else (lines[1] if len(lines) > 1 else (lines[0] if lines else '')))
    return (x[:170] + '...') if len(x) > 170 else x
for f in sorted(glob.glob('/verif/seeded/*/meta.json')):
    m = json.load(open(f))
    sid, prop = m['id'], m['breaks_property']
    rc = m.get('recheck')
    final = ('reported (exit 1)' if rc and rc['exit'] == 1 else ('NOT reported' if rc else ('reported' if prop in m.get('caught_by', []) else 'NOT reported')))
    also = set(m.get('caught_by', []))
    if sid in matrix:
        also |= {c for c, v in matrix[sid].items() if v['exit'] == 1}
    also.discard(prop)
    rows.append('| %s | %s | %s | %s | %s |' % (sid, prop, DESC.get(sid, first_sentence(m)).replace('|', '/'), final, ', '.join(sorted(also)) or '-'))
sec = sec.replace('@@MATRIX@@', '\n'.join(rows))
block = BEGIN + '\n' + sec + '\n' + END + '\n\n'
if '@@SECTIONS10@@' in d:
    d = d.replace('@@SECTIONS10@@\n', block)
else:
    i, j = d.index(BEGIN), d.index(END) + len(END)
    d = d[:i] + block.rstrip('\n') + d[j:]
open('/verif/DESIGN.md', 'w').write(d)
print('DESIGN.md regenerated:', len(rows) - 2, 'seeded changes')
