#!/usr/bin/env python3
"""Regenerates MANIFEST.json from the table below (single source of truth for the check registry)."""
import json
props = [json.loads(l) for l in open('/verif/properties.jsonl')]
SEQ = "Explicit-state model checking whose transition function is the real crate: breadth-first search over operation histories (create / poll with waker A|B / drop / primitive operations) replayed on the real primitive; the joint state (implementation snapshot through the read-only hook + harness slot state + monitor ghost state) is de-duplicated and the search runs to the fixpoint of the bounded system; the property's monitor is evaluated after every transition. Scripted members of the same search (one operation = one fixed life cycle on a fresh primitive, every step checked) vary what the fixpoint configurations hold constant: waiter counts around 2^8 and 2^16, channel capacities up to 100, payload sizes up to 64 KiB, request sizes up to usize::MAX, every whole-millisecond delay up to 20 s, the shape of the wakers, a clock that advances during a call, guards dropped by the unwinder"
DS = "Exhaustive operation-sequence enumeration on the real container code: breadth-first search over all sequences that respect the documented preconditions (list/heap: to the fixpoint over structure shapes; ring buffers: every sequence up to the length bound, no merging), reference model and structural validator evaluated after every operation"
TYPE = "Exhaustive enumeration of the finite abstract type-configuration matrix (type constructor x lock class x payload class x buffer class x {Send,Sync,Unpin}, plus method result/receiver pairs) evaluated by one program compiled against the current tree; mechanical rule-table oracle. The evaluator is the trait solver, not an execution, hence category 'other'"
LOOMX = "; thread schedules of the thread-safe flavours are additionally explored with loom (DPOR over the real generic code instantiated with a loom-backed RawMutex) up to the stated preemption bound"
T = {
 "C01": ("E-SEQ", "model_checking", SEQ + ". For C01 the monitor compares, in every state of every system, the primitive-side wait queue / timer heap with the set of live futures whose own poll state says 'linked' (by address), validates all links, and treats any panic on a contract-respecting history as a violation; the thorough tier repeats one configuration per primitive under valgrind with dropped futures really freed.", "k live futures per primitive (3 quick / 4 thorough), all primitives and flavours; memory-safety clause decided by structural set equality plus the valgrind pass, not by a proof", "explicit-state BFS over the real implementation to a fixpoint; structural queue==live-set oracle"),
 "C02": ("E-SEQ", "model_checking", SEQ, "k live lock futures (3/4-5), both fairness modes, local and parking_lot flavour", "explicit-state BFS over the real implementation to a fixpoint"),
 "C03": ("E-SEQ", "model_checking", SEQ + ", plus a deterministic drain closure (drop guards, re-poll woken futures) evaluated from every reachable state", "as C02; wake-ups are observed through counting wakers (two per slot)", "explicit-state BFS to a fixpoint + per-state liveness closure"),
 "C04": ("E-SEQ", "model_checking", SEQ, "as C02, fair mode", "explicit-state BFS over the real implementation to a fixpoint"),
 "C05": ("E-SEQ", "model_checking", SEQ, "k=3 live acquire futures, request sizes within {0..3} plus the witnesses 2^32+2 and usize::MAX, permit cap 3-5, <=1-2 extra try_acquire releasers; borrowed local/parking_lot and shared flavour (the shared one also with every user handle dropped)", "explicit-state BFS over the real implementation to a fixpoint; ledger monitor"),
 "C06": ("E-SEQ", "model_checking", SEQ + ", plus a deterministic drain closure (return all permits, re-poll woken futures) evaluated from every reachable state", "as C05", "explicit-state BFS to a fixpoint + per-state liveness closure"),
 "C07": ("E-SEQ", "model_checking", SEQ, "as C05, fair mode", "explicit-state BFS over the real implementation to a fixpoint"),
 "C08": ("E-SEQ", "model_checking", SEQ + "; values are uniquely tagged and drop-counted; every state is additionally torn down (all futures, handles and the channel dropped) to check the exactly-once drop count", "2-3 send + 1-2 receive slots + optional stream, 3-4 values, capacities 0/1/2, array/fixed-heap/growing-heap buffers, borrowed and shared handles", "explicit-state BFS to a fixpoint + per-state teardown; tagged drop-counting values"),
 "C09": ("E-SEQ", "model_checking", SEQ, "as C08", "explicit-state BFS over the real implementation to a fixpoint; reference FIFO in send-effect order"),
 "C10": ("E-SEQ", "model_checking", SEQ + ", plus a drain closure (re-poll every woken future until quiescence) from every reachable state", "as C08", "explicit-state BFS to a fixpoint + per-state liveness closure"),
 "C11": ("E-SEQ", "model_checking", SEQ + "; closed-ness is read as ground truth through the snapshot hook after every handle operation", "mpmc as C08, oneshot / oneshot-broadcast / state-broadcast with k=3 receivers, up to 2-3 handles per side", "explicit-state BFS over the real implementation to a fixpoint"),
 "C12": ("E-SEQ", "model_checking", SEQ, "k=3 (4) receive futures, 2 sends, borrowed local/parking_lot and shared", "explicit-state BFS over the real implementation to a fixpoint"),
 "C13": ("E-SEQ", "model_checking", SEQ, "k=2-3 receive futures, 3-4 sends, requested ids drawn from all ids observed so far, borrowed and shared", "explicit-state BFS over the real implementation to a fixpoint; publication-log monitor"),
 "C14": ("E-SEQ", "model_checking", SEQ, "k=3 (4-5) wait futures, initial state set/unset", "explicit-state BFS over the real implementation to a fixpoint; per-waiter latch monitor"),
 "C15": ("E-SEQ", "model_checking", SEQ + "; the clock is a harness-owned MockClock", "k=3 (4) timer futures, deadlines from a 3-value set incl. duplicates, delay 0/1/MAX, clock span 4; the 'randomized long histories' clause is replaced by the exhaustive heap exploration of C20 and by scripted histories with up to 65538 timers (sampling is outside this family); delay(d) is swept over every whole millisecond up to 20 s, sub-millisecond remainders and the neighbourhood of every power of two up to 2^70 ms", "explicit-state BFS over the real implementation to a fixpoint; sorted-multiset monitor"),
 "C16": ("E-TYPE", "other", TYPE, "one witness per (Send,Sync) class of each parameter; verdict cells are those of the NoopLock and parking_lot lock witnesses; rustc's trait solver and the rule table are trusted", "exhaustive enumeration of a finite type-configuration matrix (compile-time trait facts) with rule-table oracle"),
 "C17": ("E-SEQ", "model_checking", SEQ + ". is_terminated() is compared with the harness slot state for every live future after every operation of every system; poll-after-completion is explored as an explicit operation and must panic; stream items go through the same FIFO monitor as receives", "all systems of C01-C15", "explicit-state BFS over the real implementation to a fixpoint (piggy-backed on every system)"),
 "C18": ("E-SEQ", "model_checking", SEQ + ". A counting global allocator is armed only inside library calls; every transition of every system must show zero allocations and frees (GrowingHeapBuf: push paths may allocate)", "the harness' references to shared state are non-owning (Weak); frees in the step that drops the last owner of shared state are destruction and exempt; wakers and payloads are non-allocating by construction; under threads the same is checked by loom scenarios with an allocator that is armed only inside library calls", "explicit-state BFS over the real implementation with a counting allocator armed around every library call"),
 "C19": ("E-DS", "model_checking", DS, "capacities 0..4, all push/pop sequences up to length 12 (quick) / 16 (thorough), drop-counting elements, buffer dropped at the end of every sequence; the same with a zero-sized drop-counting element and with user RealArray types that carry an alignment attribute or a trailing field; scripted fill/rotate/drain cycles for capacities 63, 64, 70, 96 (user newtype), 128 and 65536", "exhaustive sequence enumeration against a VecDeque reference"),
 "C20": ("E-DS", "model_checking", DS, "list: 5 (7) nodes; heap: 5 nodes x all 243 key vectors over {0,1,2} (thorough: 6 nodes x 729 vectors, 7 nodes for four key vectors); scripted heaps of 1000 and 65538 nodes (ascending / descending / equal / zig-zag keys) on a 256 KiB stack", "exhaustive sequence enumeration to a fixpoint over structure shapes; structural validator + reference model"),
}
checks = []
LOOM_PROPS = {"C01", "C02", "C03", "C04", "C07", "C05", "C06", "C08", "C09", "C10", "C11", "C12", "C13", "C14", "C15", "C16", "C17", "C18"}
for p in props:
    i = p['id']
    eng, cat, text, note, tech = T[i]
    if i in LOOM_PROPS:
        text = text + LOOMX
        eng = eng + " + E-LOOM"
        tech = tech + "; loom DPOR schedule exploration of 2-4 thread scenarios"
    checks.append({
        "property_id": i,
        "quick_cmd": "./check %s --tier quick" % i,
        "thorough_cmd": "./check %s --tier thorough" % i,
        "evidence_file": "/verif/evidence/%s.json" % i,
        "replay_cmd_template": "./check %s --replay {path}" % i,
        "engine": eng,
        "level_claimed": {"category": cat, "text": text, "design_ref": "DESIGN.md sections 2 and 5 (%s)" % i},
        "level_note": note + ". Harness, monitors and the read-only snapshot hooks are trusted; see evidence 'assumptions'.",
        "technique": tech,
    })
m = {
 "version": 1,
 "setup_cmd": "cd /verif && CARGO_NET_OFFLINE=true cargo build --release --offline",
 "hooks": {"guard": "futures_intrusive_verif",
           "enable": "RUSTFLAGS '--cfg futures_intrusive_verif' via /verif/.cargo/config.toml; the engines depend on /repo by path, so cargo rebuilds the crate from the current working tree on every check",
           "baseline_off_cmd": "cd /repo && cargo test --workspace --no-fail-fast --offline",
           "source_commits": ["a1d0d6c", "091b13f", "2f130d4", "4863d9c", "d64462a", "3204aca", "05efe38", "68ca517"], "add_only": True},
 "engines": [
  {"name": "E-SEQ", "path": "/verif/engine", "serves_properties": [c for c in T if T[c][0] == "E-SEQ"], "kind_free_text": "explicit-state BFS whose transition function is the real crate (state = replayed operation history), monitors per property"},
  {"name": "E-DS", "path": "/verif/engine/src/sys_ds.rs", "serves_properties": ["C19", "C20"], "kind_free_text": "exhaustive operation-sequence enumeration of ring buffers, intrusive list and pairing heap"},
  {"name": "E-TYPE", "path": "/verif/engine/src/bin/typematrix.rs", "serves_properties": ["C16"], "kind_free_text": "exhaustive compile-time trait-fact matrix + rule table (lib/typerules.py)"},
  {"name": "E-LOOM", "path": "/verif/loomengine", "serves_properties": ["C01", "C02", "C03", "C04", "C05", "C06", "C07", "C08", "C09", "C10", "C11", "C12", "C13", "C14", "C15", "C16", "C17", "C18"], "kind_free_text": "loom (DPOR, preemption bound 2 quick; thorough: 3, then 4 or unbounded where that terminates) over the real generic code instantiated with a loom-backed RawMutex; handle counters of the shared channels are scheduling points through a cfg hook; a lost wake-up is a loom deadlock"},
 ],
 "checks": checks,
 "not_applicable": [],
 "notes": "All 20 properties are claimed. Known findings: /verif/known_findings.json. Approach, bounds, findings and mutation results: DESIGN.md.",
}
json.dump(m, open('/verif/MANIFEST.json', 'w'), indent=1)
print("manifest written:", len(checks), "checks")
