#!/usr/bin/env python3
"""privcopy.py <dir> : creates/refreshes a private pair <dir>/verif (copy of the tracked + modified files of
/verif, engines pointed at <dir>/repo) and <dir>/repo (detached worktree of /repo HEAD), for trying
changes to the repository without touching /repo or /verif."""
import os, shutil, subprocess, sys
D = sys.argv[1]
V, R = D + '/verif', D + '/repo'
os.makedirs(D, exist_ok=True)
head = subprocess.run(['git', '-C', '/repo', 'rev-parse', 'HEAD'], capture_output=True, text=True).stdout.strip()
if not os.path.exists(R):
    subprocess.run(['git', '-C', '/repo', 'worktree', 'add', '--detach', R, 'HEAD'], check=True)
    shutil.copy('/repo/Cargo.lock', R)
subprocess.run(['git', '-C', R, 'checkout', '-q', '--detach', head], check=True)
subprocess.run(['git', '-C', R, 'checkout', '--', '.'], check=True)
if os.path.exists(V):
    for e in os.listdir(V):
        if e not in ('target', 'out'):
            p = os.path.join(V, e)
            shutil.rmtree(p) if os.path.isdir(p) else os.remove(p)
os.makedirs(V, exist_ok=True)
subprocess.run('cd /verif && git ls-files -z | xargs -0 -I{} cp --parents {} %s/' % V, shell=True, check=True)
shutil.copytree('/verif/.cargo', V + '/.cargo', dirs_exist_ok=True)
for f in ('engine/Cargo.toml', 'loomengine/Cargo.toml'):
    t = open(os.path.join(V, f)).read().replace('path = "/repo"', 'path = "%s"' % R)
    open(os.path.join(V, f), 'w').write(t)
print(V, R)
